//! C09: calls through an `AbiConnection` against the same calls made directly; C16: the same from many threads.

use crate::abitraits::*;
use crate::suite::*;
use crate::val::Rng;
use savefile_abi::AbiConnection;
use std::panic::{catch_unwind, AssertUnwindSafe};
use std::sync::atomic::{AtomicUsize, Ordering};
use std::sync::Arc;

fn rnd_string(r: &mut Rng, max: u64) -> String {
    let n = r.below(max + 1);
    (0..n).map(|_| if r.chance(1, 10) { 'é' } else { (b'a' + r.below(26) as u8) as char }).collect()
}
fn rnd_rec(r: &mut Rng) -> Rec {
    let n = match r.below(4) {
        0 => 0,
        1 => r.below(8),
        2 => 20 + r.below(20), // around the 64 byte inline buffer
        _ => r.below(200),
    };
    Rec { id: r.next() as u32, name: rnd_string(r, 30), vals: (0..n).map(|_| r.next() as u16).collect() }
}
fn rnd_blob(r: &mut Rng) -> Blob {
    let mut b = [0u8; 40];
    for x in b.iter_mut() {
        *x = r.next() as u8;
    }
    Blob { bytes: b }
}

pub struct Env {
    pub conn: AbiConnection<dyn Service>,
    pub direct: ServiceImpl,
    pub svc_drops: Arc<AtomicUsize>,
    pub made_drops: Arc<AtomicUsize>,
}

pub fn new_env() -> Result<Env, String> {
    let svc_drops = Arc::new(AtomicUsize::new(0));
    let made_drops = Arc::new(AtomicUsize::new(0));
    let svc: Box<dyn Service> = Box::new(ServiceImpl { drops: svc_drops.clone(), cb_drops: made_drops.clone() });
    let conn = match catch_unwind(AssertUnwindSafe(|| AbiConnection::<dyn Service>::from_boxed_trait(svc))) {
        Ok(Ok(c)) => c,
        Ok(Err(e)) => return Err(format!("(err {})", err_class(&e))),
        Err(_) => return Err(format!("(panic {})", panic_class(&last_panic()))),
    };
    let direct = ServiceImpl { drops: Arc::new(AtomicUsize::new(0)), cb_drops: Arc::new(AtomicUsize::new(0)) };
    Ok(Env { conn, direct, svc_drops, made_drops })
}

/// one random operation through the connection and directly; violations are appended to `viol`
pub fn one_op(env: &Env, r: &mut Rng, viol: &mut Vec<String>, stats: &mut Vec<String>, shared: bool) {
    let c: &dyn Service = &env.conn;
    let d: &dyn Service = &env.direct;
    let op = r.below(16);
    let name = ["add", "apply", "apply_mut", "call_back", "borrow_back", "make", "echo_str", "sum", "big", "rec_by_value", "rec_by_ref", "fallible", "boom", "owned_closure", "many", "add"][op as usize];
    stats.push(format!("op-{}", name));
    let res = catch_unwind(AssertUnwindSafe(|| -> Result<(), String> {
        match op {
            0 | 15 => {
                let (a, b) = (r.next() as u32, r.next() as u32);
                if c.add(a, b) != d.add(a, b) {
                    return Err(format!("add({},{})", a, b));
                }
            }
            1 => {
                let k = r.next() as u32;
                let x = r.next() as u32;
                let calls = AtomicUsize::new(0);
                let f = |v: u32| {
                    calls.fetch_add(1, Ordering::SeqCst);
                    v.wrapping_mul(7).wrapping_add(k)
                };
                let got = c.apply(&f, x);
                let n = calls.swap(0, Ordering::SeqCst);
                let want = d.apply(&f, x);
                if got != want || n != 2 {
                    return Err(format!("apply x={} got={} want={} closure-calls={}", x, got, want, n));
                }
            }
            2 => {
                let n = r.below(6) as u32;
                let mut seen = Vec::new();
                c.apply_mut(&mut |v| seen.push(v), n);
                let mut want = Vec::new();
                d.apply_mut(&mut |v| want.push(v), n);
                if seen != want {
                    return Err(format!("apply_mut n={} seen={:?}", n, seen));
                }
            }
            3 => {
                let drops = Arc::new(AtomicUsize::new(0));
                let k = r.next() as u32;
                let x = r.next() as u32;
                let got = c.call_back(Box::new(Cb { k, drops: drops.clone() }), x);
                let want = d.call_back(Box::new(Cb { k, drops: Arc::new(AtomicUsize::new(0)) }), x);
                let n = drops.load(Ordering::SeqCst);
                if got != want || n != 1 {
                    return Err(format!("call_back got={} want={} boxed-callback-drops={}", got, want, n));
                }
            }
            4 => {
                let drops = Arc::new(AtomicUsize::new(0));
                let cb = Cb { k: r.next() as u32, drops: drops.clone() };
                let x = r.next() as u32;
                let got = c.borrow_back(&cb, x);
                let want = d.borrow_back(&cb, x);
                let n = drops.load(Ordering::SeqCst);
                drop(cb);
                let n2 = drops.load(Ordering::SeqCst);
                if got != want || n != 0 || n2 != 1 {
                    return Err(format!("borrow_back got={} want={} drops-during={} drops-after={}", got, want, n, n2));
                }
            }
            5 => {
                let k = r.next() as u32;
                let before = env.made_drops.load(Ordering::SeqCst);
                let made = c.make(k);
                let x = r.next() as u32;
                let got = made.notify(x);
                let got2 = made.notify(x ^ 1);
                let mid = env.made_drops.load(Ordering::SeqCst);
                drop(made);
                let after = env.made_drops.load(Ordering::SeqCst);
                let want = x.wrapping_mul(3).wrapping_add(k);
                // on a connection shared between threads the counter is shared too: only monotonicity can be checked
                let counts_ok = if shared { after >= before + 1 } else { mid == before && after == before + 1 };
                if got != want || got2 != (x ^ 1).wrapping_mul(3).wrapping_add(k) || !counts_ok {
                    return Err(format!("make got={} want={} drops before/mid/after={}/{}/{}", got, want, before, mid, after));
                }
            }
            6 => {
                let s = rnd_string(r, 150);
                if c.echo_str(&s) != d.echo_str(&s) {
                    return Err(format!("echo_str len={}", s.len()));
                }
            }
            7 => {
                let n = r.below(60);
                let xs: Vec<u32> = (0..n).map(|_| r.next() as u32).collect();
                if c.sum(&xs) != d.sum(&xs) {
                    return Err(format!("sum n={}", n));
                }
            }
            8 => {
                let (a, b) = (rnd_blob(r), rnd_blob(r));
                if c.big(a.clone(), b.clone()) != d.big(a, b) {
                    return Err("big".into());
                }
            }
            9 => {
                let rec = rnd_rec(r);
                if c.rec_by_value(rec.clone()) != d.rec_by_value(rec.clone()) {
                    return Err(format!("rec_by_value vals={}", rec.vals.len()));
                }
            }
            10 => {
                let rec = rnd_rec(r);
                if c.rec_by_ref(&rec) != d.rec_by_ref(&rec) {
                    return Err(format!("rec_by_ref vals={}", rec.vals.len()));
                }
            }
            11 => {
                let x = r.next() as i32;
                if c.fallible(x) != d.fallible(x) {
                    return Err(format!("fallible({})", x));
                }
            }
            12 => {
                let kind = r.below(4) as u32;
                let got = catch_unwind(AssertUnwindSafe(|| c.boom(kind)));
                let msg = last_panic();
                match (kind, got) {
                    (3, Ok(v)) if v == 3 => {}
                    (3, other) => return Err(format!("boom(3) got={:?}", other.is_ok())),
                    (_, Ok(v)) => return Err(format!("boom({}) returned {} instead of panicking", kind, v)),
                    (0, Err(_)) if msg.contains("literal boom") => {}
                    (1, Err(_)) if msg.contains("formatted boom 42") => {}
                    (2, Err(_)) => {}
                    (k, Err(_)) => return Err(format!("panic-message-lost boom({}) caller-saw={}", k, crate::suite::sanitize(&msg))),
                }
                // the connection stays usable
                if c.add(1, 2) != 3 {
                    return Err("unusable-after-panic".into());
                }
            }
            13 => {
                let drops = Arc::new(AtomicUsize::new(0));
                struct Guard(Arc<AtomicUsize>);
                impl Drop for Guard {
                    fn drop(&mut self) {
                        self.0.fetch_add(1, Ordering::SeqCst);
                    }
                }
                let g = Guard(drops.clone());
                let k = r.next() as u32;
                let got = c.owned_closure(Box::new(move |v| {
                    let _keep = &g;
                    v.wrapping_add(k)
                }));
                let n = drops.load(Ordering::SeqCst);
                if got != 10u32.wrapping_add(k).wrapping_add(20u32.wrapping_add(k)) || n != 1 {
                    return Err(format!("owned_closure got={} closure-drops={}", got, n));
                }
            }
            _ => {
                let s = rnd_string(r, 40);
                let v: Vec<u8> = (0..r.below(50)).map(|_| r.next() as u8).collect();
                let a = (r.next() as u8, r.next() as u16, r.next() as u32, r.next(), r.next() as i8, r.next() as i16, r.next() as i32, r.next() as i64);
                if c.many(a.0, a.1, a.2, a.3, a.4, a.5, a.6, a.7, &s, v.clone()) != d.many(a.0, a.1, a.2, a.3, a.4, a.5, a.6, a.7, &s, v) {
                    return Err("many".into());
                }
            }
        }
        Ok(())
    }));
    match res {
        Ok(Ok(())) => {}
        Ok(Err(e)) => viol.push(format!("call-differs-from-direct op={} {}", name, e.replace(' ', "_"))),
        Err(_) => viol.push(format!("call-panicked op={} got={}", name, panic_class(&last_panic()))),
    }
}

/// a connection may be moved to / shared with another thread exactly when the interface's objects may
pub fn auto_trait_case() -> Vec<String> {
    let mut out = Vec::new();
    for (name, conn_send, conn_sync, obj_send, obj_sync) in crate::abitraits::auto_trait_table() {
        out.push("#stat op-auto-traits 1".into());
        if conn_sync && !obj_sync {
            out.push(format!("!C16 connection-shareable-although-interface-is-not-sync interface={}", name));
        }
        if conn_send && !obj_send {
            out.push(format!("!C16 connection-sendable-although-interface-is-not-send interface={}", name));
        }
        if (obj_sync && !conn_sync) || (obj_send && !conn_send) {
            out.push(format!("#stat auto-traits-narrower-than-interface-{} 1", name));
        }
    }
    out
}

/// compile-time sized aggregates through a connection and directly
pub fn shapes_case(r: &mut Rng) -> Vec<String> {
    use crate::abitraits::{Shapes, ShapesImpl};
    let mut out = Vec::new();
    let conn = match catch_unwind(AssertUnwindSafe(|| AbiConnection::<dyn Shapes>::from_boxed_trait(Box::new(ShapesImpl)))) {
        Ok(Ok(c)) => c,
        Ok(Err(e)) => return vec![format!("!C09 shapes-connection-not-created got={}", err_class(&e))],
        Err(_) => return vec![format!("!C09 shapes-connection-panics got={}", panic_class(&last_panic()))],
    };
    let d = ShapesImpl;
    let f = |r: &mut Rng| f32::from_bits((r.next() as u32) & 0x7f7f_ffff);
    let mut extra: Vec<String> = Vec::new();
    let mut run = |name: &str, body: &mut dyn FnMut() -> bool| {
        out.push(format!("#stat op-shapes-{} 1", name));
        match catch_unwind(AssertUnwindSafe(body)) {
            Ok(true) => {}
            Ok(false) => out.push(format!("!C09 call-differs-from-direct op=shapes-{}", name)),
            Err(_) => out.push(format!("!C09 call-panicked op=shapes-{} got={}", name, panic_class(&last_panic()))),
        }
    };
    let a = ((f(r), f(r)), (f(r), f(r)));
    run("nested", &mut || conn.nested(a) == d.nested(a));
    let x = r.next().to_le_bytes();
    let (a, b) = (([x[0], x[1], x[2], x[3]], [x[4], x[5], x[6], x[7]]), (r.next() as u8, (r.next() as u32, r.next() as u16)));
    run("arrs", &mut || conn.arrs(a, b) == d.arrs(a, b));
    let (a, b, c) = ((r.next() as u8, r.next()), ((r.next() as u8, r.next() as u8, r.next() as u8), r.next() as u32), ((r.next(), r.next()), (r.next(), r.next()), (r.next(), r.next())));
    run("wide", &mut || conn.wide(a, b, c) == d.wide(a, b, c));
    let a = if r.chance(1, 3) { None } else { Some((r.next() as u32, r.next() as u8)) };
    let b = (r.chance(1, 2), char::from_u32((r.next() % 0xD000) as u32).unwrap_or('x'));
    run("opt", &mut || conn.opt(a, b) == d.opt(a, b));
    let k = r.next() as u8;
    run("unit_like", &mut || conn.unit_like((), ((), k)) == d.unit_like((), ((), k)));
    // boxed futures with every combination of Send / Sync / Unpin
    {
        use crate::abitraits::{block_on, Futs, FutsImpl};
        match catch_unwind(AssertUnwindSafe(|| AbiConnection::<dyn Futs>::from_boxed_trait(Box::new(FutsImpl)))) {
            Ok(Ok(c)) => {
                let x = r.next() as u32;
                let d = FutsImpl;
                run("fut-plain", &mut || { let (mut a, mut b) = (c.plain(x), d.plain(x)); block_on(a.as_mut()) == block_on(b.as_mut()) && block_on(d.plain(x).as_mut()).is_some() });
                run("fut-send", &mut || { let (mut a, mut b) = (c.send(x), d.send(x)); block_on(a.as_mut()) == block_on(b.as_mut()) });
                run("fut-send-sync", &mut || { let (mut a, mut b) = (c.send_sync(x), d.send_sync(x)); block_on(a.as_mut()) == block_on(b.as_mut()) });
                run("fut-unpinned", &mut || { let (mut a, mut b) = (c.unpinned(x), d.unpinned(x)); block_on(std::pin::Pin::new(&mut *a)) == block_on(std::pin::Pin::new(&mut *b)) });
                run("fut-all", &mut || { let (mut a, mut b) = (c.all(x), d.all(x)); block_on(std::pin::Pin::new(&mut *a)) == block_on(std::pin::Pin::new(&mut *b)) });
            }
            Ok(Err(e)) => extra.push(format!("!C09 futures-connection-not-created got={}", err_class(&e))),
            Err(_) => extra.push(format!("!C09 futures-connection-panics got={}", panic_class(&last_panic()))),
        }
    }
    // forty arguments, references among the last ten
    {
        use crate::abitraits::{Blob, ManyArgs, ManyArgsImpl, Rec};
        let made = catch_unwind(AssertUnwindSafe(|| AbiConnection::<dyn ManyArgs>::from_boxed_trait(Box::new(ManyArgsImpl))));
        match made {
            Ok(Ok(c)) => {
                let v: Vec<u32> = (0..30).map(|_| r.next() as u32).collect();
                let (x30, x31, x33, x37, x39) = (r.next() as u32, r.next() as u32, r.next(), r.next() as u16, r.next() as u32);
                let rec = Rec { id: r.next() as u32, name: rnd_string(r, 12), vals: (0..r.below(6)).map(|_| r.next() as u16).collect() };
                let blob = Blob { bytes: [r.next() as u8; 40] };
                let s = rnd_string(r, 20);
                let (x35, x38) = (r.next() as u8, r.next());
                let dm = ManyArgsImpl;
                run("forty", &mut || {
                    let call = |t: &dyn ManyArgs| {
                        t.forty(v[0], v[1], v[2], v[3], v[4], v[5], v[6], v[7], v[8], v[9], v[10], v[11], v[12], v[13], v[14], v[15], v[16], v[17], v[18], v[19], v[20], v[21], v[22], v[23], v[24], v[25], v[26], v[27], v[28], v[29],
                                &x30, &x31, &rec, &x33, &s, x35, &blob, &x37, x38, &x39)
                    };
                    call(&c) == call(&dm)
                });
            }
            Ok(Err(e)) => extra.push(format!("!C09 many-args-connection-not-created got={}", err_class(&e))),
            Err(_) => extra.push(format!("!C09 many-args-connection-panics got={}", panic_class(&last_panic()))),
        }
    }
    out.extend(extra);
    out
}

/// C09: `n` sessions of `ops` operations each
pub fn vals_cases(r: &mut Rng, n: usize, ops: usize) -> Vec<String> {
    let mut out = Vec::new();
    for i in 0..n {
        if i == 1 {
            // a connection attempt that savefile-abi refuses (here: with a panic) must not affect later ones
            let probe = crate::abi::refused_interface_probe();
            out.push(format!("#stat refused-interface-{} 1", probe.trim_matches(|c| c == '(' || c == ')').split(' ').next().unwrap_or("")));
        }
        out.extend(shapes_case(r));
        if i == 0 {
            out.extend(auto_trait_case());
        }
        let env = match new_env() {
            Ok(e) => e,
            Err(e) => {
                out.push(format!("!{} connection-not-created{} got={}", if i >= 1 { "C16" } else { "C09" }, if i >= 1 { "-after-refused-interface" } else { "" }, &e[..e.len().min(160)]));
                continue;
            }
        };
        let mut viol = Vec::new();
        let mut stats = Vec::new();
        for _ in 0..ops {
            one_op(&env, r, &mut viol, &mut stats, false);
        }
        let Env { conn, direct, svc_drops, made_drops: _ } = env;
        drop(direct);
        let before = svc_drops.load(Ordering::SeqCst);
        drop(conn);
        let after = svc_drops.load(Ordering::SeqCst);
        if before != 0 || after != 1 {
            viol.push(format!("implementation-drop-count before-connection-drop={} after={}", before, after));
        }
        for v in viol {
            out.push(format!("!C09 {}", v));
        }
        for s in stats {
            out.push(format!("#stat {} 1", s));
        }
    }
    out
}

/// C16: `threads` threads; each creates connections (first use and cached) and runs operations, some on a
/// connection shared by all.  A watchdog reports threads that do not finish.
pub fn conc_case(seed: u64, threads: usize, ops: usize) -> Vec<String> {
    use std::sync::mpsc;
    let mut out = Vec::new();
    let shared = match new_env() {
        Ok(e) => Arc::new(SharedEnv(e)),
        Err(e) => {
            out.push(format!("!C16 connection-not-created got={}", e));
            return out;
        }
    };
    if seed % 3 != 1 {
        // first use of a refused interface from several threads at once: each gets the refusal, none is left waiting
        let with_panic = seed % 3 == 0;
        let n = threads.min(6).max(2);
        let replies = crate::abi::concurrent_refused_probe(n, with_panic, 30);
        out.push("#stat conc-refused-first-use 1".to_string());
        let stuck: Vec<String> = replies.iter().enumerate().filter(|(_, x)| x.is_none()).map(|(i, _)| i.to_string()).collect();
        if !stuck.is_empty() {
            out.push(format!("!C16 threads-did-not-finish refused-connection-requested-concurrently kind={} threads={} stuck={} (30 s)", if with_panic { "panic" } else { "error" }, n, stuck.join(",")));
            for l in &out {
                println!("{}", l);
            }
            std::process::exit(0);
        }
        let first = replies[0].clone().unwrap();
        for (t, rep) in replies.iter().enumerate() {
            let rep = rep.as_ref().unwrap();
            if rep.starts_with("(ok") || *rep != first {
                out.push(format!("!C16 concurrent-refusals-differ kind={} thread={} got={} first={}", if with_panic { "panic" } else { "error" }, t, rep.replace(' ', "_"), first.replace(' ', "_")));
            }
        }
    }
    let (tx, rx) = mpsc::channel::<(usize, Vec<String>)>();
    let mut handles = Vec::new();
    for t in 0..threads {
        let tx = tx.clone();
        let shared = shared.clone();
        handles.push(std::thread::spawn(move || {
            let mut r = Rng::new(seed ^ (t as u64 + 1).wrapping_mul(0x9e3779b97f4a7c15));
            let mut viol = Vec::new();
            let mut stats = Vec::new();
            for i in 0..ops {
                if t == 0 && seed % 2 == 0 {
                    // one thread keeps asking for an interface that is refused with a panic under the template
                    // lock, while the others create connections
                    let probe = crate::abi::refused_interface_probe();
                    if probe.starts_with("(ok") {
                        viol.push("refused-interface-accepted".to_string());
                    }
                    std::thread::yield_now();
                    continue;
                }
                if i % 5 == 0 || (seed % 2 == 0 && i % 2 == 0) {
                    // a connection of this thread's own (the template is cached after the first)
                    match new_env() {
                        Ok(env) => {
                            one_op(&env, &mut r, &mut viol, &mut stats, false);
                            one_op(&env, &mut r, &mut viol, &mut stats, false);
                        }
                        Err(e) => viol.push(format!("connection-not-created thread={} got={}", t, e)),
                    }
                } else {
                    one_op(&shared.0, &mut r, &mut viol, &mut stats, true);
                }
            }
            if std::env::var("SFV_TRACE_PANICS").is_ok() {
                eprintln!("thread {} done, {} violations", t, viol.len());
            }
            let _ = tx.send((t, viol));
        }));
    }
    drop(tx);
    let mut done = vec![false; threads];
    let deadline = std::time::Instant::now() + std::time::Duration::from_secs(60);
    let mut n_done = 0;
    while n_done < threads {
        let left = deadline.saturating_duration_since(std::time::Instant::now());
        match rx.recv_timeout(left) {
            Ok((t, viol)) => {
                done[t] = true;
                n_done += 1;
                for v in viol {
                    out.push(format!("!C16 concurrent-{}", v));
                }
            }
            Err(mpsc::RecvTimeoutError::Timeout) => {
                let stuck: Vec<String> = done.iter().enumerate().filter(|(_, d)| !**d).map(|(i, _)| i.to_string()).collect();
                out.push(format!("!C16 threads-did-not-finish seed={} threads={} stuck={} (60 s)", seed, threads, stuck.join(",")));
                // the stuck threads cannot be joined: leave the process
                for l in &out {
                    println!("{}", l);
                }
                std::process::exit(0);
            }
            Err(mpsc::RecvTimeoutError::Disconnected) => {
                let stuck: Vec<String> = done.iter().enumerate().filter(|(_, d)| !**d).map(|(i, _)| i.to_string()).collect();
                out.push(format!("!C16 thread-died seed={} threads={} missing={}", seed, threads, stuck.join(",")));
                break;
            }
        }
    }
    for h in handles {
        let _ = h.join();
    }
    out.push(format!("#stat conc-threads {}", threads));
    out
}

struct SharedEnv(Env);
// `AbiConnection<dyn Service>` is Sync when `dyn Service` is; the implementation here is thread safe
unsafe impl Sync for SharedEnv {}
unsafe impl Send for SharedEnv {}
