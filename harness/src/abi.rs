//! ABI decisions taken from trait definitions alone (C10, C11, C15): hand-written `AbiExportable`
//! implementations whose definitions are chosen at run time stand in for the two sides of a connection,
//! so the real negotiation (`AbiConnection::new_internal`), analysis (`analyze_and_create`) and ledger
//! (`verify_compatiblity`) run on arbitrary definition families.

use crate::schemagen::*;
use crate::suite::*;
use crate::val::*;
use savefile::prelude::*;
use savefile::{AbiMethod, AbiMethodArgument, AbiMethodInfo, AbiTraitDefinition, ReceiverType, SavefileError};
use savefile_abi::{abi_entry_light, AbiConnection, AbiExportable, AbiProtocol, Owning, RawAbiCallResult, TraitObject};
use std::collections::HashMap;
use std::panic::{catch_unwind, AssertUnwindSafe};
use std::sync::Mutex;

pub trait CallerSlot<const N: usize> {}
pub trait CalleeSlot<const N: usize> {}

/// one side's family: definition at each version 0..=latest
#[derive(Clone)]
pub struct Family {
    pub defs: Vec<AbiTraitDefinition>,
}
impl Family {
    pub fn latest(&self) -> u32 {
        (self.defs.len() - 1) as u32
    }
    pub fn at(&self, v: u32) -> AbiTraitDefinition {
        self.defs[(v as usize).min(self.defs.len() - 1)].clone()
    }
}

/// makes the caller side's description slow to obtain, so that a negotiation takes long enough for other threads
/// to arrive while it is under way
pub static SLOT_DELAY_MS: std::sync::atomic::AtomicU64 = std::sync::atomic::AtomicU64::new(0);

static SLOTS: Mutex<Option<HashMap<(bool, usize), Family>>> = Mutex::new(None);

fn slot(callee: bool, n: usize) -> Family {
    SLOTS.lock().unwrap().as_ref().unwrap().get(&(callee, n)).expect("slot not set").clone()
}
pub fn set_slot(callee: bool, n: usize, f: Family) {
    let mut g = SLOTS.lock().unwrap();
    g.get_or_insert_with(HashMap::new).insert((callee, n), f);
}

unsafe extern "C" fn caller_entry<const N: usize>(flag: AbiProtocol) {
    abi_entry_light::<dyn CallerSlot<N>>(flag)
}
unsafe extern "C" fn callee_entry<const N: usize>(flag: AbiProtocol) {
    abi_entry_light::<dyn CalleeSlot<N>>(flag)
}

type Receiver = unsafe extern "C" fn(outcome: *const RawAbiCallResult, result_receiver: *mut ());

unsafe impl<const N: usize> AbiExportable for dyn CallerSlot<N> {
    const ABI_ENTRY: unsafe extern "C" fn(AbiProtocol) = caller_entry::<N>;
    fn get_definition(version: u32) -> AbiTraitDefinition {
        let ms = SLOT_DELAY_MS.load(std::sync::atomic::Ordering::SeqCst);
        if ms > 0 {
            std::thread::sleep(std::time::Duration::from_millis(ms));
        }
        slot(false, N).at(version)
    }
    fn get_latest_version() -> u32 {
        slot(false, N).latest()
    }
    fn call(_: TraitObject, _: u16, _: u32, _: u64, _: &[u8], _: *mut (), _: Receiver) -> Result<(), SavefileError> {
        Err(SavefileError::GeneralError { msg: "slot".into() })
    }
}
unsafe impl<const N: usize> AbiExportable for dyn CalleeSlot<N> {
    const ABI_ENTRY: unsafe extern "C" fn(AbiProtocol) = callee_entry::<N>;
    fn get_definition(version: u32) -> AbiTraitDefinition {
        slot(true, N).at(version)
    }
    fn get_latest_version() -> u32 {
        slot(true, N).latest()
    }
    fn call(_: TraitObject, _: u16, _: u32, _: u64, _: &[u8], _: *mut (), _: Receiver) -> Result<(), SavefileError> {
        Err(SavefileError::GeneralError { msg: "slot".into() })
    }
}

fn connect_slot<const N: usize>() -> String {
    let r = catch_unwind(AssertUnwindSafe(|| unsafe {
        AbiConnection::<dyn CallerSlot<N>>::from_raw(callee_entry::<N>, TraitObject::zero(), Owning::NotOwned)
    }));
    match r {
        Ok(Ok(conn)) => {
            let mut s = format!("(ok {}", conn.template.effective_version);
            for m in conn.template.methods.iter() {
                s.push_str(&format!(
                    " (m {} {} {})",
                    hexname(&m.method_name),
                    m.callee_method_number.map(|x| x.to_string()).unwrap_or("-".into()),
                    m.compatibility_mask
                ));
            }
            s.push(')');
            s
        }
        Ok(Err(e)) => format!("(err {})", err_class(&e)),
        Err(_) => format!("(panic {})", panic_class(&last_panic())),
    }
}

fn ledger_slot<const N: usize>(dir: &str) -> String {
    let r = catch_unwind(AssertUnwindSafe(|| savefile_abi::verify_compatiblity::<dyn CallerSlot<N>>(dir)));
    match r {
        Ok(Ok(())) => "(ok)".into(),
        Ok(Err(e)) => format!("(err {})", err_class(&e)),
        Err(_) => format!("(panic {})", panic_class(&last_panic())),
    }
}

macro_rules! dispatch {
    ($n:expr, $f:ident $(, $a:expr)*) => {
        match $n {
            0 => $f::<0>($($a),*), 1 => $f::<1>($($a),*), 2 => $f::<2>($($a),*), 3 => $f::<3>($($a),*),
            4 => $f::<4>($($a),*), 5 => $f::<5>($($a),*), 6 => $f::<6>($($a),*), 7 => $f::<7>($($a),*),
            8 => $f::<8>($($a),*), 9 => $f::<9>($($a),*), 10 => $f::<10>($($a),*), 11 => $f::<11>($($a),*),
            12 => $f::<12>($($a),*), 13 => $f::<13>($($a),*), 14 => $f::<14>($($a),*), 15 => $f::<15>($($a),*),
            16 => $f::<16>($($a),*), 17 => $f::<17>($($a),*), 18 => $f::<18>($($a),*), 19 => $f::<19>($($a),*),
            20 => $f::<20>($($a),*), 21 => $f::<21>($($a),*), 22 => $f::<22>($($a),*), 23 => $f::<23>($($a),*),
            24 => $f::<24>($($a),*), 25 => $f::<25>($($a),*), 26 => $f::<26>($($a),*), 27 => $f::<27>($($a),*),
            28 => $f::<28>($($a),*), 29 => $f::<29>($($a),*), 30 => $f::<30>($($a),*), 31 => $f::<31>($($a),*),
            _ => panic!("slot out of range"),
        }
    };
}
pub const NSLOTS: usize = 32;

/// An interface savefile-abi refuses with a panic while it analyses it (more than 64 methods), on slot 31.
/// Returns how the attempt ended.
pub fn refused_interface_probe() -> String {
    let mut r = Rng::new(5);
    let methods: Vec<AbiMethod> = (0..65).map(|i| gen_method(&mut r, i, 0)).collect();
    let d = AbiTraitDefinition { name: "Wide".into(), methods, sync: false, send: false };
    set_slot(false, 31, Family { defs: vec![d.clone()] });
    set_slot(true, 31, Family { defs: vec![d] });
    connect_slot::<31>()
}


/// Several threads ask, at the same moment and for the first time in this process, for a connection that is refused:
/// with an error (the two sides disagree about a method's argument count; slot 30) or with a panic (more than 64
/// methods; slot 31).  Every thread must come back with the refusal a single thread gets.  Returns the replies, or
/// `None` for a thread that did not come back within `secs`.
pub fn concurrent_refused_probe(threads: usize, with_panic: bool, secs: u64) -> Vec<Option<String>> {
    use std::sync::{mpsc, Arc, Barrier};
    let mut r = Rng::new(9);
    if with_panic {
        let methods: Vec<AbiMethod> = (0..65).map(|i| gen_method(&mut r, i, 0)).collect();
        let d = AbiTraitDefinition { name: "Wide".into(), methods, sync: false, send: false };
        set_slot(false, 31, Family { defs: vec![d.clone()] });
        set_slot(true, 31, Family { defs: vec![d] });
    } else {
        let prim = |p| Schema::Primitive(p);
        let m = |n: usize| AbiMethod {
            name: "m0".into(),
            info: AbiMethodInfo {
                return_value: prim(savefile::SchemaPrimitive::schema_u32),
                receiver: ReceiverType::Shared,
                arguments: (0..n).map(|_| AbiMethodArgument { schema: prim(savefile::SchemaPrimitive::schema_u16) }).collect(),
                async_trait_heuristic: false,
            },
        };
        set_slot(false, 30, Family { defs: vec![AbiTraitDefinition { name: "Two".into(), methods: vec![m(1)], sync: false, send: false }] });
        set_slot(true, 30, Family { defs: vec![AbiTraitDefinition { name: "Two".into(), methods: vec![m(2)], sync: false, send: false }] });
    }
    SLOT_DELAY_MS.store(25, std::sync::atomic::Ordering::SeqCst);
    let barrier = Arc::new(Barrier::new(threads));
    let (tx, rx) = mpsc::channel::<(usize, String)>();
    for t in 0..threads {
        let tx = tx.clone();
        let barrier = barrier.clone();
        std::thread::spawn(move || {
            barrier.wait();
            // a little apart, so that some arrive while the first is in the middle of its negotiation
            std::thread::sleep(std::time::Duration::from_millis(3 * t as u64));
            let rep = if with_panic { connect_slot::<31>() } else { connect_slot::<30>() };
            let _ = tx.send((t, rep));
        });
    }
    drop(tx);
    let mut out: Vec<Option<String>> = vec![None; threads];
    let deadline = std::time::Instant::now() + std::time::Duration::from_secs(secs);
    let mut n = 0;
    while n < threads {
        match rx.recv_timeout(deadline.saturating_duration_since(std::time::Instant::now())) {
            Ok((t, rep)) => {
                out[t] = Some(rep);
                n += 1;
            }
            Err(_) => break,
        }
    }
    SLOT_DELAY_MS.store(0, std::sync::atomic::Ordering::SeqCst);
    out
}

pub fn hexname(s: &str) -> String {
    format!("h{}", if s.is_empty() { String::new() } else { hex(s.as_bytes()) })
}

pub fn def_hex(d: &AbiTraitDefinition) -> String {
    hex(&ser_schema(&Schema::Trait(false, d.clone()), 2))
}

// ---------------------------------------------------------------------------------------------
// generation

/// a struct of primitives with complete layout information (size, alignment, every offset)
fn layout_struct(r: &mut Rng) -> Schema {
    use savefile::{SchemaPrimitive, SchemaStruct};
    let n = 1 + r.below(4) as usize;
    let mut off = 0usize;
    let mut fields = Vec::new();
    for i in 0..n {
        let (p, sz) = match r.below(4) {
            0 => (SchemaPrimitive::schema_u8, 1),
            1 => (SchemaPrimitive::schema_u16, 2),
            2 => (SchemaPrimitive::schema_u32, 4),
            _ => (SchemaPrimitive::schema_u64, 8),
        };
        off = (off + sz - 1) / sz * sz;
        fields.push(unsafe { Field::unsafe_new(format!("f{}", i), Box::new(Schema::Primitive(p)), Some(off)) });
        off += sz;
    }
    Schema::Struct(SchemaStruct::new_unsafe("L".into(), fields, Some((off + 7) / 8 * 8), Some(8)))
}

fn arg_schema(r: &mut Rng, depth: u32) -> Schema {
    match r.below(8) {
        0 => return Schema::Reference(Box::new(layout_struct(r))),
        1 => return Schema::Slice(Box::new(layout_struct(r))),
        2 => return layout_struct(r),
        // closures and trait objects as arguments (`&dyn Fn`, `&mut dyn FnMut`, `&dyn Trait`, `&mut dyn Trait`)
        3 if depth > 0 => return if r.chance(1, 2) { Schema::FnClosure(r.chance(1, 2), gen_def(r, depth - 1)) } else { Schema::Trait(r.chance(1, 2), gen_def(r, depth - 1)) },
        _ => {}
    }
    let data_only = r.chance(2, 3);
    gen_schema(r, depth, data_only)
}

fn future_of(r: &mut Rng) -> Schema {
    // what #[async_trait] / boxed futures produce: a Future whose definition has the one method `poll`
    let out = gen_schema(r, 1, true);
    Schema::Future(
        AbiTraitDefinition {
            name: "Future".into(),
            methods: vec![AbiMethod {
                name: "poll".into(),
                info: AbiMethodInfo { return_value: out, receiver: ReceiverType::PinMut, arguments: vec![], async_trait_heuristic: false },
            }],
            sync: false,
            send: false,
        },
        r.chance(1, 2),
        r.chance(1, 4),
        r.chance(1, 4),
    )
}

fn gen_method(r: &mut Rng, i: usize, depth: u32) -> AbiMethod {
    if r.chance(1, 6) {
        let is_async = r.chance(1, 2);
        return AbiMethod {
            name: format!("m{}", i),
            info: AbiMethodInfo {
                return_value: future_of(r),
                receiver: ReceiverType::Shared,
                arguments: (0..r.below(3)).map(|_| AbiMethodArgument { schema: gen_schema(r, 1, true) }).collect(),
                async_trait_heuristic: is_async,
            },
        };
    }
    if r.chance(1, 12) {
        // many arguments: the by-reference mask has one bit per argument, up to 64
        let n = 28 + r.below(37) as usize;
        return AbiMethod {
            name: format!("m{}", i),
            info: AbiMethodInfo {
                return_value: arg_schema(r, 1),
                receiver: ReceiverType::Shared,
                arguments: (0..n)
                    .map(|k| AbiMethodArgument {
                        schema: if k >= 26 && r.chance(2, 3) { Schema::Reference(Box::new(layout_struct(r))) } else if r.chance(1, 3) { Schema::Reference(Box::new(layout_struct(r))) } else { gen_schema(r, 0, true) },
                    })
                    .collect(),
                async_trait_heuristic: false,
            },
        };
    }
    AbiMethod {
        name: format!("m{}", i),
        info: AbiMethodInfo {
            return_value: arg_schema(r, depth),
            receiver: match r.below(3) {
                0 => ReceiverType::Shared,
                1 => ReceiverType::Mut,
                _ => ReceiverType::PinMut,
            },
            arguments: (0..r.below(4)).map(|_| AbiMethodArgument { schema: arg_schema(r, depth) }).collect(),
            async_trait_heuristic: r.chance(1, 6),
        },
    }
}

pub fn gen_base(r: &mut Rng) -> AbiTraitDefinition {
    let nm = 1 + r.below(4) as usize;
    AbiTraitDefinition { name: "Iface".into(), methods: (0..nm).map(|i| gen_method(r, i, 2)).collect(), sync: r.chance(1, 3), send: r.chance(1, 3) }
}

thread_local! {
    /// name of the method the last `mutate_def` / `mutate_def_with` touched (None: the trait as a whole)
    static TOUCHED: std::cell::RefCell<Option<String>> = const { std::cell::RefCell::new(None) };
}
fn touch(name: &str) {
    TOUCHED.with(|t| *t.borrow_mut() = Some(name.to_string()));
}
pub fn touched() -> Option<String> {
    TOUCHED.with(|t| t.borrow().clone())
}

/// one change to a definition; the label says what kind
pub fn mutate_def(r: &mut Rng, d: &AbiTraitDefinition) -> (&'static str, AbiTraitDefinition) {
    let mut d = d.clone();
    let nm = d.methods.len();
    TOUCHED.with(|t| *t.borrow_mut() = None);
    let kind = match r.below(12) {
        0 => {
            let i = d.methods.len();
            d.methods.push(gen_method(r, 100 + i, 2));
            "method-added"
        }
        1 if nm > 0 => {
            let m = d.methods.remove(r.below(nm as u64) as usize);
            touch(&m.name);
            "method-removed"
        }
        2 if nm > 0 => {
            let m = r.below(nm as u64) as usize;
            touch(&d.methods[m].name);
            d.methods[m].info.arguments.push(AbiMethodArgument { schema: arg_schema(r, 1) });
            "argument-added"
        }
        3 if nm > 0 => {
            let m = r.below(nm as u64) as usize;
            touch(&d.methods[m].name);
            if d.methods[m].info.arguments.is_empty() {
                d.methods[m].info.arguments.push(AbiMethodArgument { schema: arg_schema(r, 1) });
                "argument-added"
            } else {
                d.methods[m].info.arguments.pop();
                "argument-removed"
            }
        }
        4 | 5 if nm > 0 => {
            let m = r.below(nm as u64) as usize;
            let na = d.methods[m].info.arguments.len();
            if na == 0 {
                return ("unchanged", d);
            }
            let a = r.below(na as u64) as usize;
            touch(&d.methods[m].name);
            match mutate(r, &d.methods[m].info.arguments[a].schema) {
                Some((k, s)) => {
                    d.methods[m].info.arguments[a].schema = s;
                    if k.starts_with("memory") || k.starts_with("name") || k.starts_with("layout") { "argument-memory-changed" } else { "argument-type-changed" }
                }
                None => "unchanged",
            }
        }
        6 if nm > 0 => {
            let m = r.below(nm as u64) as usize;
            touch(&d.methods[m].name);
            match mutate(r, &d.methods[m].info.return_value) {
                Some((k, s)) => {
                    d.methods[m].info.return_value = s;
                    if k.starts_with("memory") || k.starts_with("name") || k.starts_with("layout") { "return-memory-changed" } else { "return-type-changed" }
                }
                None => "unchanged",
            }
        }
        7 if nm > 1 => {
            d.methods.swap(0, nm - 1);
            "methods-reordered"
        }
        8 => {
            d.sync = !d.sync;
            if d.sync { "sync-added" } else { "sync-removed" }
        }
        9 => {
            d.send = !d.send;
            if d.send { "send-added" } else { "send-removed" }
        }
        11 if nm > 0 => {
            // a change neither the wire comparison nor the layout comparison looks at: names
            let m = r.below(nm as u64) as usize;
            touch(&d.methods[m].name);
            let mut done = false;
            for a in d.methods[m].info.arguments.iter_mut() {
                if rename_first_struct(&mut a.schema) {
                    done = true;
                    break;
                }
            }
            if done { "argument-renamed" } else { "unchanged" }
        }
        10 if nm > 0 => {
            let m = r.below(nm as u64) as usize;
            touch(&d.methods[m].name);
            d.methods[m].info.async_trait_heuristic = !d.methods[m].info.async_trait_heuristic;
            "async-flipped"
        }
        _ => "unchanged",
    };
    (kind, d)
}

fn rename_first_struct(s: &mut Schema) -> bool {
    match s {
        Schema::Struct(st) => {
            st.dbg_name.push('x');
            if let Some(f) = st.fields.first_mut() {
                f.name.push('y');
            }
            true
        }
        Schema::Reference(t) | Schema::Slice(t) | Schema::Boxed(t) | Schema::Vector(t, _) | Schema::SchemaOption(t) => rename_first_struct(t),
        _ => false,
    }
}

/// a family: the base at version 0, each later version one (mostly compatible) step further
pub fn gen_family(r: &mut Rng, base: &AbiTraitDefinition, latest: u32) -> Family {
    let mut defs = vec![base.clone()];
    for _ in 0..latest {
        let prev = defs.last().unwrap().clone();
        let next = if r.chance(1, 2) { mutate_def(r, &prev).1 } else { prev };
        defs.push(next);
    }
    Family { defs }
}

fn fam_sx(f: &Family) -> String {
    let mut s = String::from("(");
    for (i, d) in f.defs.iter().enumerate() {
        if i > 0 {
            s.push(' ');
        }
        s.push_str(&def_hex(d));
    }
    s.push(')');
    s
}

/// `n` connection cases (at most NSLOTS per call: templates are cached per slot for the life of the process)
pub fn connect_cases(r: &mut Rng, n: usize) -> Vec<String> {
    let mut out = Vec::new();
    for i in 0..n.min(NSLOTS) {
        let base = gen_base(r);
        let l1 = r.below(3) as u32;
        let caller = gen_family(r, &base, l1);
        // the other side: the same history, possibly longer or shorter, possibly with a deviation
        let l2 = r.below(3) as u32;
        let mut callee = if r.chance(1, 2) { caller.clone() } else { gen_family(r, &base, l2) };
        let mut labels = Vec::new();
        for _ in 0..r.below(3) {
            let v = r.below(callee.defs.len() as u64) as usize;
            let (k, d) = mutate_def(r, &callee.defs[v]);
            // a deviation applies from that version on
            for w in v..callee.defs.len() {
                if w == v || r.chance(2, 3) {
                    callee.defs[w] = d.clone();
                }
            }
            labels.push(k);
        }
        set_slot(false, i, caller.clone());
        set_slot(true, i, callee.clone());
        let rep = dispatch!(i, connect_slot);
        let rep = if rep.starts_with("(err") && !(rep == "(err schema)" || rep == "(err general)" || rep.starts_with("(err other:TooManyArguments")) { rep } else { rep };
        out.push(format!("(connect {} {})\t{}", fam_sx(&caller), fam_sx(&callee), normalize_conn(&rep)));
        out.push(format!("#stat connect-{} 1", rep.trim_start_matches('(').split(|c| c == ' ' || c == ')').next().unwrap_or("")));
        for l in &labels {
            out.push(format!("#stat deviation-{} 1", l));
        }
        // direct oracle (C10): with identical families on both sides the connection is created, at the common
        // latest version, with every method matched
        if labels.is_empty() && caller.defs.len() == callee.defs.len() && caller.defs.iter().zip(callee.defs.iter()).all(|(a, b)| a == b) && no_undefined_or_arg_future(&caller)
            // (more than 64 arguments is beyond what the by-reference mask can describe: refused as TooManyArguments)
            && caller.defs.iter().all(|d| d.methods.iter().all(|m| m.info.arguments.len() <= 64))
        {
            if !rep.starts_with("(ok") {
                out.push(format!("!C10 identical-interfaces-do-not-connect caller={} got={}", fam_sx(&caller), &rep[..rep.len().min(100)]));
            } else if rep.contains(" - ") {
                out.push(format!("!C10 identical-interfaces-method-unmatched caller={} got={}", fam_sx(&caller), &rep[..rep.len().min(200)]));
            }
        }
    }
    out
}

fn normalize_conn(rep: &str) -> String {
    if rep.starts_with("(panic") {
        "(panic)".into()
    } else if rep.starts_with("(err other:TooManyArguments") {
        "(err toomany)".into()
    } else {
        rep.to_string()
    }
}

fn schema_has(s: &Schema, f: &dyn Fn(&Schema) -> bool) -> bool {
    if f(s) {
        return true;
    }
    match s {
        Schema::Struct(st) => st.fields.iter().any(|x| schema_has(&x.value, f)),
        Schema::Enum(e) => e.variants.iter().any(|v| v.fields.iter().any(|x| schema_has(&x.value, f))),
        Schema::Vector(t, _) | Schema::SchemaOption(t) | Schema::Boxed(t) | Schema::Slice(t) | Schema::Reference(t) => schema_has(t, f),
        Schema::Array(a) => schema_has(&a.item_type, f),
        Schema::Trait(_, d) | Schema::FnClosure(_, d) | Schema::Future(d, _, _, _) => def_has(d, f),
        _ => false,
    }
}
fn def_has(d: &AbiTraitDefinition, f: &dyn Fn(&Schema) -> bool) -> bool {
    d.methods.iter().any(|m| schema_has(&m.info.return_value, f) || m.info.arguments.iter().any(|a| schema_has(&a.schema, f)))
}
/// as below, but a future *returned* by a method (an async interface) is fine
fn no_undefined_or_arg_future_in_args(f: &Family) -> bool {
    let bad = |s: &Schema| matches!(s, Schema::Undefined | Schema::Future(..));
    f.defs.iter().all(|d| {
        d.methods.iter().all(|m| {
            m.info.arguments.iter().all(|a| !schema_has(&a.schema, &bad))
                && match &m.info.return_value {
                    // the future itself may be returned; what it resolves to must be plain
                    Schema::Future(fd, ..) => !def_has(fd, &bad),
                    other => !schema_has(other, &bad),
                }
        })
    })
}
/// `diff_schema` is not reflexive on `Undefined`, and panics on a future outside return position
fn no_undefined_or_arg_future(f: &Family) -> bool {
    f.defs.iter().all(|d| !def_has(d, &|s| matches!(s, Schema::Undefined | Schema::Future(..))))
}

// ---------------------------------------------------------------------------------------------
// the ledger

fn read_ledger(dir: &std::path::Path) -> String {
    let mut files: Vec<(u32, Vec<u8>)> = Vec::new();
    if let Ok(rd) = std::fs::read_dir(dir) {
        for e in rd.flatten() {
            let name = e.file_name().to_string_lossy().to_string();
            // savefile_<name>_<version>.schema
            if let Some(stem) = name.strip_suffix(".schema") {
                if let Some(v) = stem.rsplit('_').next().and_then(|x| x.parse::<u32>().ok()) {
                    files.push((v, std::fs::read(e.path()).unwrap_or_default()));
                }
            }
        }
    }
    files.sort();
    let mut s = String::from("(");
    for (i, (v, b)) in files.iter().enumerate() {
        if i > 0 {
            s.push(' ');
        }
        s.push_str(&format!("({} {})", v, hex(b)));
    }
    s.push(')');
    s
}

/// `n` ledger histories (at most NSLOTS): successive revisions of one interface verified against one directory
pub fn ledger_cases(r: &mut Rng, n: usize) -> Vec<String> {
    let mut out = Vec::new();
    for i in 0..n.min(NSLOTS) {
        let dir = crate::crypt::tmp_path("ledger");
        let dir = dir.with_extension("d");
        let _ = std::fs::remove_dir_all(&dir);
        let base = gen_base(r);
        let l1 = r.below(3) as u32;
        let mut fam = gen_family(r, &base, l1);
        let mut prev_label: &'static str = "first-run";
        let mut prev_ok = true;
        // what the directory records: the definition of each version when its file was written
        let mut recorded: HashMap<usize, AbiTraitDefinition> = HashMap::new();
        // did the last change touch something the directory records?
        let mut hits_recorded = false;
        for step in 0..(3 + r.below(4)) {
            set_slot(false, i, fam.clone());
            let before = read_ledger(&dir);
            let rep = dispatch!(i, ledger_slot, dir.to_str().unwrap());
            let after = read_ledger(&dir);
            let repn = if rep.starts_with("(panic") { "(panic)".to_string() } else if rep == "(err schema)" { "(err incompatible)".to_string() } else if rep.starts_with("(err") { "(err unreadable)".to_string() } else { rep.clone() };
            out.push(format!("(ledger {} {})\t({} {})", fam_sx(&fam), before, repn, after));
            out.push(format!("#stat ledger-{}-{} 1", prev_label, repn.trim_matches(|c| c == '(' || c == ')').replace(' ', "-")));
            // direct oracles (C15)
            let clean = no_undefined_or_arg_future_in_args(&fam) && !fam.defs.iter().any(|d| def_has(d, &|s| matches!(s, Schema::Trait(..) | Schema::FnClosure(..))));
            if prev_ok && clean {
                match prev_label {
                    "first-run" | "unchanged" | "method-added" | "new-version" => {
                        if !rep.starts_with("(ok") {
                            out.push(format!("!C15 compatible-revision-rejected step={} change={} family={} got={}", step, prev_label, fam_sx(&fam), &rep[..rep.len().min(100)]));
                        }
                    }
                    "method-removed" | "argument-added" | "argument-removed" | "argument-type-changed" | "return-type-changed" if hits_recorded => {
                        if rep.starts_with("(ok") {
                            out.push(format!("!C15 breaking-revision-accepted step={} change={} family={}", step, prev_label, fam_sx(&fam)));
                        }
                    }
                    _ => {}
                }
            }
            if rep.starts_with("(panic") && clean {
                out.push(format!("!C15 ledger-panic step={} change={} got={}", step, prev_label, &rep[..rep.len().min(120)]));
            }
            prev_ok = rep.starts_with("(ok");
            if !prev_ok {
                break;
            }
            for (v, d) in fam.defs.iter().enumerate() {
                recorded.entry(v).or_insert_with(|| d.clone());
            }
            hits_recorded = false;
            // next revision
            match r.below(5) {
                0 => prev_label = "unchanged",
                1 => {
                    // a new interface version whose definition continues the latest one
                    let last = fam.defs.last().unwrap().clone();
                    fam.defs.push(last);
                    prev_label = "new-version";
                }
                _ => {
                    // one change, applied to every recorded version (a change of the trait's shape) or,
                    // for type changes, to one version only (that version's data format)
                    let v = r.below(fam.defs.len() as u64) as usize;
                    let (k, d) = mutate_def(r, &fam.defs[v]);
                    if matches!(k, "method-added" | "method-removed" | "argument-added" | "argument-removed" | "methods-reordered" | "sync-added" | "sync-removed" | "send-added" | "send-removed" | "async-flipped") {
                        // shape changes apply to the trait as a whole: replay on each version
                        let mut r2 = Rng::new(r.next());
                        let seed = r2.next();
                        for w in 0..fam.defs.len() {
                            let mut rr = Rng::new(seed);
                            // same random choices on every version (same method indices)
                            let (_, dw) = mutate_def_with(&mut rr, &fam.defs[w], k);
                            if let (Some(t), Some(rec)) = (touched(), recorded.get(&w)) {
                                if rec.methods.iter().any(|m| m.name == t) {
                                    hits_recorded = true;
                                }
                            }
                            fam.defs[w] = dw;
                        }
                    } else {
                        // (`touched` still refers to the `mutate_def` call above)
                        if let (Some(t), Some(rec)) = (touched(), recorded.get(&v)) {
                            if rec.methods.iter().any(|m| m.name == t) {
                                hits_recorded = true;
                            }
                        }
                        fam.defs[v] = d;
                    }
                    prev_label = k;
                }
            }
        }
        let _ = std::fs::remove_dir_all(&dir);
    }
    out
}

/// apply a change of the given kind (first applicable place), deterministic given the rng
fn mutate_def_with(r: &mut Rng, d: &AbiTraitDefinition, kind: &str) -> (&'static str, AbiTraitDefinition) {
    let mut d = d.clone();
    let nm = d.methods.len();
    TOUCHED.with(|t| *t.borrow_mut() = None);
    match kind {
        "method-added" => {
            let i = d.methods.len();
            let mut rr = Rng::new(r.next());
            d.methods.push(gen_method(&mut rr, 100 + i, 1));
            ("method-added", d)
        }
        "method-removed" if nm > 0 => {
            let m = d.methods.remove(0);
            touch(&m.name);
            ("method-removed", d)
        }
        "argument-added" if nm > 0 => {
            touch(&d.methods[0].name);
            d.methods[0].info.arguments.push(AbiMethodArgument { schema: Schema::Primitive(savefile::SchemaPrimitive::schema_u32) });
            ("argument-added", d)
        }
        "argument-removed" if nm > 0 => {
            if let Some(m) = d.methods.iter_mut().find(|m| !m.info.arguments.is_empty()) {
                m.info.arguments.pop();
                let n = m.name.clone();
                touch(&n);
            }
            ("argument-removed", d)
        }
        "methods-reordered" if nm > 1 => {
            d.methods.swap(0, nm - 1);
            ("methods-reordered", d)
        }
        "sync-added" | "sync-removed" => {
            d.sync = kind == "sync-added";
            ("sync", d)
        }
        "send-added" | "send-removed" => {
            d.send = kind == "send-added";
            ("send", d)
        }
        "async-flipped" if nm > 0 => {
            touch(&d.methods[0].name);
            d.methods[0].info.async_trait_heuristic = !d.methods[0].info.async_trait_heuristic;
            ("async-flipped", d)
        }
        _ => ("unchanged", d),
    }
}

/// C15 on the interfaces the attribute macro generates: the versions of one evolution family's interface (methods
/// added, argument/return types with versioned fields, a future-returning method) are checked against one ledger
/// directory in order — every step is a backward-compatible evolution and has to be accepted, twice in a row.
pub fn macro_ledger_chains() -> Vec<String> {
    let mut out = Vec::new();
    for (fam, steps) in crate::zoo_gen::ledger_chains() {
        let dir = crate::crypt::tmp_path("macro-ledger").with_extension("d");
        let _ = std::fs::remove_dir_all(&dir);
        let _ = std::fs::create_dir_all(&dir);
        let d = dir.to_string_lossy().to_string();
        for (k, step) in steps.iter().enumerate() {
            for round in 0..2 {
                out.push("#stat op-macro-ledger-steps 1".into());
                match catch_unwind(AssertUnwindSafe(|| step(&d))) {
                    Ok(Ok(())) => {}
                    Ok(Err(e)) => out.push(format!("!C15 compatible-evolution-rejected family={} interface-version={} run={} got={}", fam, k, round, e.replace(' ', "_"))),
                    Err(_) => out.push(format!("!C15 ledger-panics family={} interface-version={} run={} got={}", fam, k, round, panic_class(&last_panic()))),
                }
            }
        }
        // and the other way round in a fresh directory: recording the newest first, the older interface versions
        // (fewer methods) are then checked against what it recorded for their versions
        let dir2 = crate::crypt::tmp_path("macro-ledger-rev").with_extension("d");
        let _ = std::fs::remove_dir_all(&dir2);
        let _ = std::fs::create_dir_all(&dir2);
        let d2 = dir2.to_string_lossy().to_string();
        if let Some(last) = steps.last() {
            out.push("#stat op-macro-ledger-steps 1".into());
            match catch_unwind(AssertUnwindSafe(|| last(&d2))) {
                Ok(Ok(())) => {}
                Ok(Err(e)) => out.push(format!("!C15 first-recording-rejected family={} got={}", fam, e.replace(' ', "_"))),
                Err(_) => out.push(format!("!C15 ledger-panics family={} first-recording got={}", fam, panic_class(&last_panic()))),
            }
            out.push("#stat op-macro-ledger-steps 1".into());
            match catch_unwind(AssertUnwindSafe(|| last(&d2))) {
                Ok(Ok(())) => {}
                Ok(Err(e)) => out.push(format!("!C15 unchanged-interface-rejected family={} got={}", fam, e.replace(' ', "_"))),
                Err(_) => out.push(format!("!C15 ledger-panics family={} second-run got={}", fam, panic_class(&last_panic()))),
            }
        }
        let _ = std::fs::remove_dir_all(&dir);
        let _ = std::fs::remove_dir_all(&dir2);
    }
    out
}
