//! Generic per-type entry points used by all suites, outcome classification, panic capture.

use crate::val::*;
use savefile::prelude::*;
use savefile::SavefileError;
use std::cell::RefCell;
use std::panic::{catch_unwind, AssertUnwindSafe};

thread_local! {
    static LAST_PANIC: RefCell<String> = RefCell::new(String::new());
}

pub fn install_panic_hook() {
    std::panic::set_hook(Box::new(|info| {
        let msg = if let Some(s) = info.payload().downcast_ref::<&str>() {
            s.to_string()
        } else if let Some(s) = info.payload().downcast_ref::<String>() {
            s.clone()
        } else {
            "<non-string payload>".to_string()
        };
        let loc = info.location().map(|l| format!("{}:{}", l.file(), l.line())).unwrap_or_default();
        LAST_PANIC.with(|p| *p.borrow_mut() = format!("{} @ {}", msg, loc));
    }));
}

pub fn last_panic() -> String {
    LAST_PANIC.with(|p| p.borrow().clone())
}

fn sanitize(s: &str) -> String {
    s.chars()
        .map(|c| if c.is_ascii_alphanumeric() || c == '-' || c == '_' || c == ':' || c == '.' || c == '/' { c } else { '_' })
        .take(120)
        .collect()
}

/// panic message → small class the model knows about
pub fn panic_class(msg: &str) -> String {
    if msg.contains("multiply with overflow") {
        "mul-overflow".into()
    } else if msg.contains("overflow when subtracting duration") || msg.contains("overflow when adding duration") {
        "systime".into()
    } else if msg.contains("Failed to allocate") || msg.contains("capacity overflow") || msg.contains("apacity overflow") {
        "oom".into()
    } else if msg.contains("is not present in version") {
        "variant-absent".into()
    } else if msg.contains("attempt to actually serialize a removed field") {
        "removed-alive".into()
    } else {
        format!("other:{}", sanitize(msg))
    }
}

pub fn err_class(e: &SavefileError) -> String {
    match e {
        SavefileError::IOError { io_error } => {
            if io_error.kind() == std::io::ErrorKind::UnexpectedEof {
                "eof".into()
            } else {
                format!("io:{:?}", io_error.kind())
            }
        }
        SavefileError::InvalidUtf8 { .. } => "utf8".into(),
        SavefileError::GeneralError { .. } => "general".into(),
        SavefileError::ArrayvecCapacityError { .. } => "capacity".into(),
        SavefileError::InvalidChar => "badchar".into(),
        SavefileError::MemoryAllocationLayoutError => "alloc".into(),
        SavefileError::IncompatibleSchema { .. } => "schema".into(),
        SavefileError::WrongVersion { .. } => "wrongversion".into(),
        SavefileError::CryptographyError => "crypto".into(),
        SavefileError::TimestampOutOfRange => "timestamp".into(),
        SavefileError::SizeOverflow => "sizeoverflow".into(),
        SavefileError::ShortRead => "shortread".into(),
        SavefileError::PoisonedMutex => "poisoned".into(),
        other => format!("other:{}", sanitize(&format!("{:?}", other))),
    }
}

pub fn err_msg(e: &SavefileError) -> String {
    sanitize(&format!("{}", e))
}

/// `Serializer::bare_serialize` under `catch_unwind`
pub fn bare_enc<T: Serialize>(ver: u32, x: &T) -> Result<Vec<u8>, String> {
    let r = catch_unwind(AssertUnwindSafe(|| {
        let mut buf = Vec::new();
        Serializer::bare_serialize(&mut buf, ver, x).map(|_| buf)
    }));
    match r {
        Ok(Ok(b)) => Ok(b),
        Ok(Err(e)) => Err(format!("(err {})", err_class(&e))),
        Err(_) => Err(format!("(panic {})", panic_class(&last_panic()))),
    }
}

/// `Deserializer::bare_deserialize` under `catch_unwind`; reply in protocol form
pub fn bare_dec<T: Deserialize + ZooVal>(ver: u32, bytes: &[u8]) -> String {
    let r = catch_unwind(AssertUnwindSafe(|| {
        let mut cur = std::io::Cursor::new(bytes);
        let v = Deserializer::bare_deserialize::<T>(&mut cur, ver);
        v.map(|x| {
            let rest = bytes.len() as u64 - cur.position().min(bytes.len() as u64);
            let s = x.sx(true);
            // values with invalid bit patterns must not be dropped normally
            if s.contains("invalid-") {
                std::mem::forget(x);
            }
            format!("(ok {} {})", s, rest)
        })
    }));
    match r {
        Ok(Ok(s)) => s,
        Ok(Err(e)) => format!("(err {})", err_class(&e)),
        Err(_) => format!("(panic {})", panic_class(&last_panic())),
    }
}

pub struct Entry {
    pub name: String,
    /// data versions this definition is exercised at; the last one is its current version
    pub versions: Vec<u32>,
    /// evolution family and the version this definition is current for
    pub family: Option<(String, u32)>,
    /// does the value round-trip modulo `savefile_ignore` only (false: type has ignored fields)
    pub tags: Vec<&'static str>,
    pub defs: fn(&mut Defs),
    pub ty_sx: fn() -> String,
    /// generate a value; answer (wire-order sx, canonical sx, encode result)
    pub gen_enc: fn(&mut Rng, usize, u32) -> (String, String, Result<Vec<u8>, String>),
    pub dec: fn(u32, &[u8]) -> String,
    pub packed: fn(u32) -> bool,
    pub mem: fn() -> (usize, usize),
}

impl Entry {
    pub fn current(&self) -> u32 {
        *self.versions.last().unwrap()
    }
}

fn gen_enc_impl<T: ZooVal + Serialize>(r: &mut Rng, sz: usize, ver: u32) -> (String, String, Result<Vec<u8>, String>) {
    let x = T::gen(r, sz);
    let wire = x.sx(false);
    let canon = x.sx(true);
    let res = bare_enc(ver, &x);
    (wire, canon, res)
}

pub fn entry<T: ZooVal + Serialize + Deserialize + Packed + 'static>(
    name: &str,
    versions: &[u32],
    family: Option<(&str, u32)>,
    tags: &[&'static str],
) -> Entry {
    Entry {
        name: name.to_string(),
        versions: versions.to_vec(),
        family: family.map(|(f, v)| (f.to_string(), v)),
        tags: tags.to_vec(),
        defs: T::defs,
        ty_sx: T::ty_sx,
        gen_enc: gen_enc_impl::<T>,
        dec: bare_dec::<T>,
        packed: |v| unsafe { T::repr_c_optimization_safe(v).is_yes() },
        mem: || (std::mem::size_of::<T>(), std::mem::align_of::<T>()),
    }
}
