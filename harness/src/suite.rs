//! Generic per-type entry points used by all suites, outcome classification, panic capture.

use crate::val::*;
use savefile::prelude::*;
use savefile::SavefileError;
use std::cell::RefCell;
use std::panic::{catch_unwind, AssertUnwindSafe};

thread_local! {
    static LAST_PANIC: RefCell<String> = RefCell::new(String::new());
}

pub fn install_panic_hook() {
    std::panic::set_hook(Box::new(|info| {
        let msg = if let Some(s) = info.payload().downcast_ref::<&str>() {
            s.to_string()
        } else if let Some(s) = info.payload().downcast_ref::<String>() {
            s.clone()
        } else {
            "<non-string payload>".to_string()
        };
        let loc = info.location().map(|l| format!("{}:{}", l.file(), l.line())).unwrap_or_default();
        if std::env::var("SFV_TRACE_PANICS").is_ok() {
            eprintln!("panic: {} @ {}", msg, loc);
        }
        LAST_PANIC.with(|p| *p.borrow_mut() = format!("{} @ {}", msg, loc));
    }));
}

pub fn last_panic() -> String {
    LAST_PANIC.with(|p| p.borrow().clone())
}

pub fn sanitize(s: &str) -> String {
    s.chars()
        .map(|c| if c.is_ascii_alphanumeric() || c == '-' || c == '_' || c == ':' || c == '.' || c == '/' { c } else { '_' })
        .take(120)
        .collect()
}

/// panic message → small class the model knows about
pub fn panic_class(msg: &str) -> String {
    if msg.contains("multiply with overflow") {
        "mul-overflow".into()
    } else if msg.contains("overflow when subtracting duration") || msg.contains("overflow when adding duration") {
        "systime".into()
    } else if msg.contains("Failed to allocate") || msg.contains("capacity overflow") || msg.contains("apacity overflow") {
        "oom".into()
    } else if msg.contains("is not present in version") {
        "variant-absent".into()
    } else if msg.contains("attempt to actually serialize a removed field") {
        "removed-alive".into()
    } else {
        format!("other:{}", sanitize(msg))
    }
}

pub fn err_class(e: &SavefileError) -> String {
    match e {
        SavefileError::IOError { io_error } => {
            if io_error.kind() == std::io::ErrorKind::UnexpectedEof {
                "eof".into()
            } else {
                format!("io:{:?}", io_error.kind())
            }
        }
        SavefileError::InvalidUtf8 { .. } => "utf8".into(),
        SavefileError::GeneralError { .. } => "general".into(),
        SavefileError::ArrayvecCapacityError { .. } => "capacity".into(),
        SavefileError::InvalidChar => "badchar".into(),
        SavefileError::MemoryAllocationLayoutError => "alloc".into(),
        SavefileError::IncompatibleSchema { .. } => "schema".into(),
        SavefileError::WrongVersion { .. } => "wrongversion".into(),
        SavefileError::CryptographyError => "crypto".into(),
        SavefileError::TimestampOutOfRange => "timestamp".into(),
        SavefileError::SizeOverflow => "sizeoverflow".into(),
        SavefileError::ShortRead => "shortread".into(),
        SavefileError::PoisonedMutex => "poisoned".into(),
        other => format!("other:{}", sanitize(&format!("{:?}", other))),
    }
}

pub fn err_msg(e: &SavefileError) -> String {
    sanitize(&format!("{}", e))
}

/// `Serializer::bare_serialize` under `catch_unwind`
pub fn bare_enc<T: Serialize>(ver: u32, x: &T) -> Result<Vec<u8>, String> {
    let r = catch_unwind(AssertUnwindSafe(|| {
        let mut buf = Vec::new();
        Serializer::bare_serialize(&mut buf, ver, x).map(|_| buf)
    }));
    match r {
        Ok(Ok(b)) => Ok(b),
        Ok(Err(e)) => Err(format!("(err {})", err_class(&e))),
        Err(_) => Err(format!("(panic {})", panic_class(&last_panic()))),
    }
}

/// `Deserializer::bare_deserialize` under `catch_unwind`; reply in protocol form
pub fn bare_dec<T: Deserialize + ZooVal>(ver: u32, bytes: &[u8]) -> String {
    let r = catch_unwind(AssertUnwindSafe(|| {
        let mut cur = std::io::Cursor::new(bytes);
        let v = Deserializer::bare_deserialize::<T>(&mut cur, ver);
        v.map(|x| {
            let rest = bytes.len() as u64 - cur.position().min(bytes.len() as u64);
            let s = x.sx(true);
            // values with invalid bit patterns must not be dropped normally
            if s.contains("invalid-") {
                std::mem::forget(x);
            }
            format!("(ok {} {})", s, rest)
        })
    }));
    match r {
        Ok(Ok(s)) => s,
        Ok(Err(e)) => format!("(err {})", err_class(&e)),
        Err(_) => format!("(panic {})", panic_class(&last_panic())),
    }
}

/// the four containers of the public API
#[derive(Clone, Copy, PartialEq, Eq, Debug)]
pub enum Kind {
    Plain,
    NoSchema,
    Compressed,
    Encrypted,
}
impl Kind {
    pub fn all() -> [Kind; 4] {
        [Kind::Plain, Kind::NoSchema, Kind::Compressed, Kind::Encrypted]
    }
    pub fn name(&self) -> &'static str {
        match self {
            Kind::Plain => "plain",
            Kind::NoSchema => "noschema",
            Kind::Compressed => "compressed",
            Kind::Encrypted => "encrypted",
        }
    }
}

pub const PASSWORD: &str = "correct horse";
pub fn key_of(password: &str) -> [u8; 32] {
    let d = ring::digest::digest(&ring::digest::SHA256, password.as_bytes());
    let mut k = [0u8; 32];
    k.clone_from_slice(d.as_ref());
    k
}

pub fn save_container<T: Serialize + WithSchema>(kind: Kind, ver: u32, x: &T) -> Result<Vec<u8>, String> {
    let r = catch_unwind(AssertUnwindSafe(|| -> Result<Vec<u8>, SavefileError> {
        let mut buf = Vec::new();
        match kind {
            Kind::Plain => savefile::save(&mut buf, ver, x)?,
            Kind::NoSchema => savefile::save_noschema(&mut buf, ver, x)?,
            Kind::Compressed => savefile::save_compressed(&mut buf, ver, x)?,
            Kind::Encrypted => {
                // what save_encrypted_file does, over memory
                let mut w = savefile::CryptoWriter::new(&mut buf, key_of(PASSWORD))?;
                Serializer::save::<T>(&mut w, ver, x, true)?;
                std::io::Write::flush(&mut w)?;
            }
        }
        Ok(buf)
    }));
    match r {
        Ok(Ok(b)) => Ok(b),
        Ok(Err(e)) => Err(format!("(err {})", err_class(&e))),
        Err(_) => Err(format!("(panic {})", panic_class(&last_panic()))),
    }
}

pub fn load_container<T: Deserialize + WithSchema + ZooVal>(kind: Kind, memver: u32, password: &str, bytes: &[u8]) -> String {
    let r = catch_unwind(AssertUnwindSafe(|| -> Result<String, SavefileError> {
        let mut cur = std::io::Cursor::new(bytes);
        let x: T = match kind {
            Kind::Plain | Kind::Compressed => savefile::load(&mut cur, memver)?,
            Kind::NoSchema => savefile::load_noschema(&mut cur, memver)?,
            Kind::Encrypted => {
                let mut rd = savefile::CryptoReader::new(&mut cur, key_of(password))?;
                Deserializer::<savefile::CryptoReader>::load::<T>(&mut rd, memver)?
            }
        };
        let rest = bytes.len() as u64 - cur.position().min(bytes.len() as u64);
        let s = x.sx(true);
        if s.contains("invalid-") {
            std::mem::forget(x);
        }
        Ok(format!("(ok {} {})", s, rest))
    }));
    match r {
        Ok(Ok(s)) => s,
        Ok(Err(e)) => format!("(err {})", err_class(&e)),
        Err(_) => format!("(panic {})", panic_class(&last_panic())),
    }
}

pub fn schema_bytes<T: WithSchema>(ver: u32, libver: u32) -> Vec<u8> {
    let schema = savefile::get_schema::<T>(ver);
    let mut buf = Vec::new();
    let mut ser = Serializer::<Vec<u8>>::new_raw(&mut buf, libver);
    schema.serialize(&mut ser).unwrap();
    buf
}

pub struct Entry {
    pub name: String,
    /// data versions this definition is exercised at; the last one is its current version
    pub versions: Vec<u32>,
    /// evolution family and the version this definition is current for
    pub family: Option<(String, u32)>,
    /// does the value round-trip modulo `savefile_ignore` only (false: type has ignored fields)
    pub tags: Vec<&'static str>,
    pub defs: fn(&mut Defs),
    pub ty_sx: fn() -> String,
    /// generate a value; answer (wire-order sx, canonical sx, encode result)
    pub gen_enc: fn(&mut Rng, usize, u32) -> (String, String, Result<Vec<u8>, String>),
    pub dec: fn(u32, &[u8]) -> String,
    pub packed: fn(u32) -> bool,
    pub mem: fn() -> (usize, usize),
    /// generate a value and save it in a container: (wire-order sx, canonical sx, bytes)
    pub gen_save: fn(&mut Rng, usize, u32, Kind) -> (String, String, Result<Vec<u8>, String>),
    pub load: fn(Kind, u32, &str, &[u8]) -> String,
    pub schema_bytes: fn(u32, u32) -> Vec<u8>,
    /// C04 direct oracle (bulk containers of this type vs element-wise encoding)
    pub bulk: fn(&str, &mut Rng, usize, u32) -> Vec<String>,
    /// C17: generate a value, walk it through `Introspect`, run `ncmds` navigation commands:
    /// (direct violations, request, reply, node count)
    pub intro: fn(&str, &mut Rng, usize, usize) -> (Vec<String>, String, String, usize),
    /// C08: one value through instrumented writers/readers, all containers: output lines
    pub iofault: fn(&str, &mut Rng, usize, u32, usize, bool) -> Vec<String>,
    /// C14: one value saved with `save_encrypted_file`, then mutated copies through `load_encrypted_file`
    pub encfile: fn(&str, &mut Rng, usize, u32, bool, bool) -> Vec<String>,
    /// C11: a value and its raw memory: (wire-order sx, hex of size_of::<T>() bytes)
    pub mem_image: fn(&mut Rng, usize) -> (String, String),
    /// (value, address of the object, its bytes, what its pointer-like words lead to)
    pub mem_heap: fn(&mut Rng, usize) -> (String, usize, String, Vec<(usize, String)>),
}

impl Entry {
    pub fn current(&self) -> u32 {
        *self.versions.last().unwrap()
    }
}

fn gen_enc_impl<T: ZooVal + Serialize>(r: &mut Rng, sz: usize, ver: u32) -> (String, String, Result<Vec<u8>, String>) {
    let x = T::gen(r, sz);
    let wire = x.sx(false);
    let canon = x.sx(true);
    let res = bare_enc(ver, &x);
    (wire, canon, res)
}

fn mem_image_impl<T: ZooVal>(r: &mut Rng, sz: usize) -> (String, String) {
    let x = T::gen(r, sz);
    let sx = x.sx(false);
    let n = std::mem::size_of::<T>();
    // the object representation, padding included (only the bytes a schema prescribes are ever compared)
    let mut bytes = Vec::with_capacity(n);
    let p = &x as *const T as *const u8;
    for i in 0..n {
        bytes.push(unsafe { std::ptr::read_volatile(p.add(i)) });
    }
    (sx, hex(&bytes))
}

/// readable address ranges of this process
fn readable_ranges() -> Vec<(usize, usize)> {
    let mut v = Vec::new();
    if let Ok(maps) = std::fs::read_to_string("/proc/self/maps") {
        for l in maps.lines() {
            let mut it = l.split_whitespace();
            let (Some(range), Some(perms)) = (it.next(), it.next()) else { continue };
            if !perms.starts_with('r') || l.contains("[vvar]") || l.contains("[vsyscall]") {
                continue;
            }
            if let Some((a, b)) = range.split_once('-') {
                if let (Ok(a), Ok(b)) = (usize::from_str_radix(a, 16), usize::from_str_radix(b, 16)) {
                    v.push((a, b));
                }
            }
        }
    }
    v
}

/// The object representation of a value and, conservatively, the heap behind it: every 8 byte word at an
/// 8-aligned address that looks like the start of a heap allocation is followed (that allocation), four levels deep.
/// Nothing here knows the type's layout: what the words mean is for the schema (and the model) to say.
fn mem_heap_impl<T: ZooVal>(r: &mut Rng, sz: usize) -> (String, usize, String, Vec<(usize, String)>) {
    let x = T::gen(r, sz);
    let sx = x.sx(false);
    let n = std::mem::size_of::<T>();
    let base = &x as *const T as usize;
    let read = |addr: usize, len: usize| -> Vec<u8> { (0..len).map(|i| unsafe { std::ptr::read_volatile((addr + i) as *const u8) }).collect() };
    let obj = read(base, n);
    let ranges = readable_ranges();
    let mut segs: Vec<(usize, Vec<u8>)> = Vec::new();
    let mut frontier: Vec<(usize, Vec<u8>)> = vec![(base, obj.clone())];
    for _depth in 0..4 {
        let mut next = Vec::new();
        for (start, bytes) in frontier.iter() {
            let mut off = (8 - start % 8) % 8;
            while off + 8 <= bytes.len() {
                let w = u64::from_le_bytes(bytes[off..off + 8].try_into().unwrap()) as usize;
                off += 8;
                if w < 4096 || (w >= base && w < base + n.max(1)) {
                    continue;
                }
                if segs.iter().chain(next.iter()).any(|(a, _)| w == *a) || segs.len() + next.len() >= 400 {
                    continue;
                }
                // only what looks like the start of a heap allocation: glibc keeps the chunk size in the word
                // before it.  The window is that allocation, so neighbouring chunks are not swept in.
                if w % 8 != 0 {
                    continue;
                }
                let Some((_, end)) = ranges.iter().find(|(a, b)| w - 8 >= *a && w < *b) else { continue };
                let hdr = u64::from_le_bytes(read(w - 8, 8).try_into().unwrap()) as usize;
                let chunk = hdr & !0x7;
                if chunk < 32 || chunk % 16 != 0 || chunk > (1 << 20) || w + chunk > *end {
                    continue;
                }
                let data = read(w, chunk - 8);
                next.push((w, data));
            }
        }
        segs.extend(next.iter().cloned());
        frontier = next;
    }
    (sx, base, hex(&obj), segs.into_iter().map(|(a, b)| (a, hex(&b))).collect())
}

fn intro_impl<T: ZooVal + Introspect>(name: &str, r: &mut Rng, sz: usize, ncmds: usize) -> (Vec<String>, String, String, usize) {
    let x = T::gen(r, sz);
    let mut viol = Vec::new();
    let mut budget = 20000usize;
    if r.below(3) == 0 {
        // the value as a listed child of something (what is shown for it is then part of every result)
        let pair = vec![x, T::gen(r, sz.min(4))];
        let kids = crate::intro::walk(&pair, "", &mut budget, &mut viol);
        let (req, reply, v2) = crate::intro::nav_case(&pair, &kids, r, ncmds, &format!("Vec2<{}>", name));
        viol.extend(v2);
        return (viol, req, reply, 20000 - budget);
    }
    let kids = crate::intro::walk(&x, "", &mut budget, &mut viol);
    let (req, reply, v2) = crate::intro::nav_case(&x, &kids, r, ncmds, name);
    viol.extend(v2);
    (viol, req, reply, 20000 - budget)
}

fn gen_save_impl<T: ZooVal + Serialize + WithSchema>(r: &mut Rng, sz: usize, ver: u32, kind: Kind) -> (String, String, Result<Vec<u8>, String>) {
    let x = T::gen(r, sz);
    (x.sx(false), x.sx(true), save_container(kind, ver, &x))
}

pub fn entry<T: ZooVal + Serialize + Deserialize + Packed + WithSchema + Introspect + 'static>(
    name: &str,
    versions: &[u32],
    family: Option<(&str, u32)>,
    tags: &[&'static str],
) -> Entry {
    Entry {
        name: name.to_string(),
        versions: versions.to_vec(),
        family: family.map(|(f, v)| (f.to_string(), v)),
        tags: tags.to_vec(),
        defs: T::defs,
        ty_sx: T::ty_sx,
        gen_enc: gen_enc_impl::<T>,
        dec: bare_dec::<T>,
        packed: |v| unsafe { T::repr_c_optimization_safe(v).is_yes() },
        mem: || (std::mem::size_of::<T>(), std::mem::align_of::<T>()),
        gen_save: gen_save_impl::<T>,
        load: load_container::<T>,
        schema_bytes: schema_bytes::<T>,
        bulk: bulk_check::<T>,
        intro: intro_impl::<T>,
        iofault: crate::iofault::iofault_case::<T>,
        encfile: crate::crypt::enc_case::<T>,
        mem_image: mem_image_impl::<T>,
        mem_heap: mem_heap_impl::<T>,
    }
}

/// container variants of zoo types: no stream-level suites
pub fn entry_c<T: ZooVal + Serialize + Deserialize + Packed + WithSchema + Introspect + 'static>(
    name: &str,
    versions: &[u32],
    family: Option<(&str, u32)>,
    tags: &[&'static str],
) -> Entry {
    Entry {
        name: name.to_string(),
        versions: versions.to_vec(),
        family: family.map(|(f, v)| (f.to_string(), v)),
        tags: tags.to_vec(),
        defs: T::defs,
        ty_sx: T::ty_sx,
        gen_enc: gen_enc_impl::<T>,
        dec: bare_dec::<T>,
        packed: |v| unsafe { T::repr_c_optimization_safe(v).is_yes() },
        mem: || (std::mem::size_of::<T>(), std::mem::align_of::<T>()),
        gen_save: gen_save_impl::<T>,
        load: load_container::<T>,
        schema_bytes: schema_bytes::<T>,
        bulk: bulk_check::<T>,
        intro: intro_impl::<T>,
        iofault: |_, _, _, _, _, _| Vec::new(),
        encfile: |_, _, _, _, _, _| Vec::new(),
        mem_image: mem_image_impl::<T>,
        mem_heap: mem_heap_impl::<T>,
    }
}

/// for the few types that do not implement `Introspect` (`Cell`)
pub fn entry_ni<T: ZooVal + Serialize + Deserialize + Packed + WithSchema + 'static>(
    name: &str,
    versions: &[u32],
    family: Option<(&str, u32)>,
    tags: &[&'static str],
) -> Entry {
    Entry {
        name: name.to_string(),
        versions: versions.to_vec(),
        family: family.map(|(f, v)| (f.to_string(), v)),
        tags: tags.to_vec(),
        defs: T::defs,
        ty_sx: T::ty_sx,
        gen_enc: gen_enc_impl::<T>,
        dec: bare_dec::<T>,
        packed: |v| unsafe { T::repr_c_optimization_safe(v).is_yes() },
        mem: || (std::mem::size_of::<T>(), std::mem::align_of::<T>()),
        gen_save: gen_save_impl::<T>,
        load: load_container::<T>,
        schema_bytes: schema_bytes::<T>,
        bulk: bulk_check::<T>,
        intro: |_, _, _, _| (Vec::new(), String::new(), String::new(), 0),
        iofault: crate::iofault::iofault_case::<T>,
        encfile: crate::crypt::enc_case::<T>,
        mem_image: mem_image_impl::<T>,
        mem_heap: mem_heap_impl::<T>,
    }
}

// ---------------------------------------------------------------------------------------------
// process isolation for cases that may abort (allocation failure on an absurd declared length
// calls `handle_alloc_error`, which cannot be caught)

extern "C" {
    fn fork() -> i32;
    fn pipe(fds: *mut i32) -> i32;
    fn read(fd: i32, buf: *mut u8, n: usize) -> isize;
    fn write(fd: i32, buf: *const u8, n: usize) -> isize;
    fn close(fd: i32) -> i32;
    fn waitpid(pid: i32, status: *mut i32, options: i32) -> i32;
    fn _exit(code: i32) -> !;
    fn dup2(old: i32, new: i32) -> i32;
    fn open(path: *const u8, flags: i32) -> i32;
    fn setrlimit(resource: i32, rlim: *const [u64; 2]) -> i32;
    fn alarm(seconds: u32) -> u32;
}

/// address-space limit of an isolated child: a declared length that is absurd but still allocatable
/// (a few GB) must fail like any other allocation failure instead of filling the machine's memory
const CHILD_AS_LIMIT: u64 = 1 << 30;
const RLIMIT_AS: i32 = 9;

/// Run `f` in a forked child and return what it produced; `(abort SIG)` if the child died.
pub fn isolated(f: impl FnOnce() -> String) -> String {
    isolated_t(1200, f)
}

/// All of `items` in one forked child; only when that child dies (abort, time limit) is each item run in a child
/// of its own, so that the one that kills the process is identified and the others still get their result.
pub fn isolated_batch<I>(items: &[I], f: impl Fn(&I) -> String) -> Vec<String> {
    if items.is_empty() {
        return Vec::new();
    }
    let all = isolated_t(120, || items.iter().map(|i| f(i).replace('\n', " ")).collect::<Vec<_>>().join("\n"));
    let parts: Vec<String> = all.split('\n').map(|s| s.to_string()).collect();
    if !all.starts_with("(abort") && parts.len() == items.len() {
        return parts;
    }
    items.iter().map(|i| isolated_t(60, || f(i))).collect()
}

/// `isolated` with a wall-clock limit for the child: a child that is still running after `secs` seconds is
/// killed by SIGALRM and reported as `(abort 14)` — a loader that spins on a hostile length is a finding, not
/// a reason for the check never to end.
pub fn isolated_t(secs: u32, f: impl FnOnce() -> String) -> String {
    unsafe {
        let mut fds = [0i32; 2];
        if pipe(fds.as_mut_ptr()) != 0 {
            return f();
        }
        let pid = fork();
        if pid < 0 {
            close(fds[0]);
            close(fds[1]);
            return f();
        }
        if pid == 0 {
            close(fds[0]);
            let lim = [CHILD_AS_LIMIT, CHILD_AS_LIMIT];
            setrlimit(RLIMIT_AS, &lim);
            alarm(secs);
            // silence the allocation-failure message of the child
            let devnull = open(b"/dev/null\0".as_ptr(), 1);
            if devnull >= 0 {
                dup2(devnull, 2);
            }
            let s = f();
            let b = s.as_bytes();
            let mut off = 0;
            while off < b.len() {
                let n = write(fds[1], b.as_ptr().add(off), b.len() - off);
                if n <= 0 {
                    break;
                }
                off += n as usize;
            }
            close(fds[1]);
            _exit(0);
        }
        close(fds[1]);
        let mut out = Vec::new();
        let mut buf = [0u8; 65536];
        loop {
            let n = read(fds[0], buf.as_mut_ptr(), buf.len());
            if n <= 0 {
                break;
            }
            out.extend_from_slice(&buf[..n as usize]);
        }
        close(fds[0]);
        let mut status = 0i32;
        waitpid(pid, &mut status, 0);
        let signaled = (status & 0x7f) != 0;
        if signaled {
            return format!("(abort {})", status & 0x7f);
        }
        String::from_utf8_lossy(&out).to_string()
    }
}

// ---------------------------------------------------------------------------------------------
// C04 direct oracle: bulk containers vs element-wise encoding, on the implementation alone

fn enc_or<T: Serialize>(ver: u32, x: &T) -> Option<Vec<u8>> {
    bare_enc(ver, x).ok()
}

pub fn bulk_check<T: ZooVal + Serialize + Deserialize + Packed + 'static>(name: &str, r: &mut Rng, sz: usize, ver: u32) -> Vec<String> {
    let mut out = Vec::new();
    let n = match r.below(6) {
        0 => 0,
        1 => 1,
        2 => 2,
        3 => 3,
        4 => 64 + r.below(3) as usize,
        _ => r.len(sz.max(4)),
    };
    let items: Vec<T> = (0..n).map(|_| T::gen(r, sz / 2)).collect();
    let mut singles: Vec<Vec<u8>> = Vec::new();
    for it in items.iter() {
        match enc_or(ver, it) {
            Some(b) => singles.push(b),
            None => return out, // the element cannot be written at this version at all
        }
    }
    let mut expected = (n as u64).to_le_bytes().to_vec();
    for s in &singles {
        expected.extend_from_slice(s);
    }
    let item_sx: Vec<String> = singles
        .iter()
        .map(|s| bare_dec::<T>(ver, s))
        .collect();
    let report = |out: &mut Vec<String>, container: &str, got: Option<Vec<u8>>| {
        match got {
            Some(g) if g == expected => {}
            Some(g) => out.push(format!(
                "!C04 bulk-bytes container={} type={} ver={} n={} elementwise={} bulk={}",
                container, name, ver, n, hex(&expected), hex(&g)
            )),
            None => out.push(format!("!C04 bulk-save-failed container={} type={} ver={} n={}", container, name, ver, n)),
        }
    };
    report(&mut out, "slice", enc_or(ver, &&items[..]));
    report(&mut out, "Vec", enc_or(ver, &items));
    // bulk read of the element-wise bytes vs element-wise reads
    let all_ok = item_sx.iter().all(|s| s.starts_with("(ok ") && s.ends_with(" 0)"));
    if all_ok {
        let want = format!(
            "(ok (q{}) 0)",
            item_sx.iter().map(|s| format!(" {}", &s[4..s.len() - 3])).collect::<String>()
        );
        let got = bare_dec::<Vec<T>>(ver, &expected);
        if got != want {
            out.push(format!("!C04 bulk-read type={} ver={} n={} bytes={} elementwise={} bulk={}", name, ver, n, hex(&expected), want, got));
        }
    }
    let boxed: Box<[T]> = items.into_boxed_slice();
    report(&mut out, "Box<[T]>", enc_or(ver, &boxed));
    let arc: std::sync::Arc<[T]> = boxed.into();
    report(&mut out, "Arc<[T]>", enc_or(ver, &arc));
    // fixed-size array and ArrayVec (no length prefix / same prefix)
    let three: Vec<T> = (0..3).map(|_| T::gen(r, sz / 2)).collect();
    let mut exp3 = Vec::new();
    let mut ok3 = true;
    for it in three.iter() {
        match enc_or(ver, it) {
            Some(b) => exp3.extend_from_slice(&b),
            None => ok3 = false,
        }
    }
    if ok3 {
        let mut av: arrayvec::ArrayVec<T, 5> = arrayvec::ArrayVec::new();
        let mut it = three.into_iter();
        let a0 = it.next().unwrap();
        let a1 = it.next().unwrap();
        let a2 = it.next().unwrap();
        let arr: [T; 3] = [a0, a1, a2];
        match enc_or(ver, &arr) {
            Some(g) if g == exp3 => {}
            Some(g) => out.push(format!("!C04 bulk-bytes container=[T;3] type={} ver={} elementwise={} bulk={}", name, ver, hex(&exp3), hex(&g))),
            None => out.push(format!("!C04 bulk-save-failed container=[T;3] type={} ver={}", name, ver)),
        }
        let got = bare_dec::<[T; 3]>(ver, &exp3);
        let [a0, a1, a2] = arr;
        let want = format!("(ok (t {} {} {}) 0)", a0.sx(true), a1.sx(true), a2.sx(true));
        // compare only when the type round-trips exactly (no ignored / absent fields): use element-wise reads
        let e0 = bare_dec::<T>(ver, &enc_or(ver, &a0).unwrap_or_default());
        if e0 == format!("(ok {} 0)", a0.sx(true)) && got != want && got.starts_with("(ok") {
            // only flag when the first element is known to round-trip exactly
            let e1 = bare_dec::<T>(ver, &enc_or(ver, &a1).unwrap_or_default());
            let e2 = bare_dec::<T>(ver, &enc_or(ver, &a2).unwrap_or_default());
            if e1 == format!("(ok {} 0)", a1.sx(true)) && e2 == format!("(ok {} 0)", a2.sx(true)) {
                out.push(format!("!C04 bulk-read container=[T;3] type={} ver={} want={} got={}", name, ver, want, got));
            }
        }
        av.push(a0);
        av.push(a1);
        av.push(a2);
        let mut expav = 3u64.to_le_bytes().to_vec();
        expav.extend_from_slice(&exp3);
        match enc_or(ver, &av) {
            Some(g) if g == expav => {}
            Some(g) => out.push(format!("!C04 bulk-bytes container=ArrayVec type={} ver={} elementwise={} bulk={}", name, ver, hex(&expav), hex(&g))),
            None => out.push(format!("!C04 bulk-save-failed container=ArrayVec type={} ver={}", name, ver)),
        }
    }
    out
}
