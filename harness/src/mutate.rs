//! Malformed-stream generation: valid encodings with bytes, lengths, tags and discriminants
//! mutated, truncations, and random bytes.  Lengths that would make an unguarded
//! `with_capacity` abort the process (≥ 2^24 but not absurd enough to overflow) are avoided.

use crate::val::Rng;

const WORDS: [u64; 10] = [
    0,
    1,
    2,
    255,
    256,
    65_537,
    1_000_000,
    1_000_001,
    u64::MAX,
    0x2000_0000_0000_0001,
];

pub fn mutations(r: &mut Rng, base: &[u8], n: usize) -> Vec<Vec<u8>> {
    let mut out = Vec::new();
    for _ in 0..n {
        let mut b = base.to_vec();
        match r.below(8) {
            0 => {
                // truncate
                let k = r.below(b.len() as u64 + 1) as usize;
                b.truncate(k);
            }
            1 | 2 => {
                // overwrite one byte with a boundary value
                if !b.is_empty() {
                    let i = r.below(b.len() as u64) as usize;
                    b[i] = [0u8, 1, 2, 3, 0x7f, 0x80, 0xfe, 0xff][r.below(8) as usize];
                }
            }
            3 | 4 => {
                // overwrite an 8-byte window (a length prefix, if we hit one) with a boundary word
                if b.len() >= 8 {
                    let i = r.below((b.len() - 7) as u64) as usize;
                    let w = WORDS[r.below(WORDS.len() as u64) as usize];
                    b[i..i + 8].copy_from_slice(&w.to_le_bytes());
                } else {
                    let w = WORDS[r.below(WORDS.len() as u64) as usize];
                    b = w.to_le_bytes().to_vec();
                }
            }
            5 => {
                // first 8 bytes = boundary word (top-level length / tag)
                let w = WORDS[r.below(WORDS.len() as u64) as usize];
                if b.len() >= 8 {
                    b[0..8].copy_from_slice(&w.to_le_bytes());
                } else {
                    b = w.to_le_bytes().to_vec();
                }
            }
            6 => {
                // random bytes, small first word so that declared lengths stay harmless
                let l = r.below(40) as usize;
                b = (0..l).map(|_| r.next() as u8).collect();
                if b.len() >= 8 {
                    for x in b[1..8].iter_mut() {
                        *x = 0;
                    }
                }
            }
            _ => {
                // flip one bit
                if !b.is_empty() {
                    let i = r.below(b.len() as u64) as usize;
                    b[i] ^= 1 << r.below(8);
                }
            }
        }
        out.push(b);
    }
    out
}
