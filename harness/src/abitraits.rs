//! Hand-written exported interfaces for C09 / C16: plain data by value and by reference, &str, slices, Result,
//! boxed trait objects in both directions, borrowed and owned closures, arguments that straddle the 64 byte
//! inline buffer, panics with literal / formatted / non-string payloads.  Implementations count their drops.

use savefile_derive::savefile_abi_exportable;
use savefile_derive::Savefile;
use std::sync::atomic::{AtomicUsize, Ordering};
use std::sync::Arc;

#[derive(Savefile, Clone, Debug, PartialEq)]
pub struct Rec {
    pub id: u32,
    pub name: String,
    pub vals: Vec<u16>,
}

/// 40 bytes on the wire: two of them straddle the 64 byte inline argument buffer
#[derive(Savefile, Clone, Debug, PartialEq)]
pub struct Blob {
    pub bytes: [u8; 40],
}

#[savefile_abi_exportable(version = 0)]
pub trait Callback {
    fn notify(&self, x: u32) -> u32;
}

#[savefile_abi_exportable(version = 0)]
pub trait Service {
    fn add(&self, a: u32, b: u32) -> u32;
    fn apply(&self, f: &dyn Fn(u32) -> u32, x: u32) -> u32;
    fn apply_mut(&self, f: &mut dyn FnMut(u32), n: u32);
    fn call_back(&self, cb: Box<dyn Callback>, x: u32) -> u32;
    fn borrow_back(&self, cb: &dyn Callback, x: u32) -> u32;
    fn make(&self, k: u32) -> Box<dyn Callback>;
    fn echo_str(&self, s: &str) -> String;
    fn sum(&self, xs: &[u32]) -> u64;
    fn big(&self, a: Blob, b: Blob) -> u32;
    fn rec_by_value(&self, r: Rec) -> Rec;
    fn rec_by_ref(&self, r: &Rec) -> u32;
    fn fallible(&self, x: i32) -> Result<u32, String>;
    fn boom(&self, kind: u32) -> u32;
    fn owned_closure(&self, f: Box<dyn Fn(u32) -> u32>) -> u32;
    fn many(&self, a: u8, b: u16, c: u32, d: u64, e: i8, f: i16, g: i32, h: i64, s: &str, v: Vec<u8>) -> u64;
}

pub struct Cb {
    pub k: u32,
    pub drops: Arc<AtomicUsize>,
}
impl Callback for Cb {
    fn notify(&self, x: u32) -> u32 {
        x.wrapping_mul(3).wrapping_add(self.k)
    }
}
impl Drop for Cb {
    fn drop(&mut self) {
        self.drops.fetch_add(1, Ordering::SeqCst);
    }
}

pub struct ServiceImpl {
    pub drops: Arc<AtomicUsize>,
    pub cb_drops: Arc<AtomicUsize>,
}
impl Drop for ServiceImpl {
    fn drop(&mut self) {
        self.drops.fetch_add(1, Ordering::SeqCst);
    }
}

impl Service for ServiceImpl {
    fn add(&self, a: u32, b: u32) -> u32 {
        a.wrapping_add(b)
    }
    fn apply(&self, f: &dyn Fn(u32) -> u32, x: u32) -> u32 {
        f(f(x))
    }
    fn apply_mut(&self, f: &mut dyn FnMut(u32), n: u32) {
        for i in 0..n {
            f(i)
        }
    }
    fn call_back(&self, cb: Box<dyn Callback>, x: u32) -> u32 {
        cb.notify(x).wrapping_add(cb.notify(1))
    }
    fn borrow_back(&self, cb: &dyn Callback, x: u32) -> u32 {
        cb.notify(x)
    }
    fn make(&self, k: u32) -> Box<dyn Callback> {
        Box::new(Cb { k, drops: self.cb_drops.clone() })
    }
    fn echo_str(&self, s: &str) -> String {
        format!("<{}>", s)
    }
    fn sum(&self, xs: &[u32]) -> u64 {
        xs.iter().map(|x| *x as u64).sum()
    }
    fn big(&self, a: Blob, b: Blob) -> u32 {
        a.bytes.iter().zip(b.bytes.iter()).map(|(x, y)| (*x as u32) * 2 + *y as u32).sum()
    }
    fn rec_by_value(&self, mut r: Rec) -> Rec {
        r.id = r.id.wrapping_add(1);
        r.name.push('!');
        r.vals.reverse();
        r
    }
    fn rec_by_ref(&self, r: &Rec) -> u32 {
        r.id ^ (r.name.len() as u32) ^ r.vals.iter().map(|x| *x as u32).sum::<u32>()
    }
    fn fallible(&self, x: i32) -> Result<u32, String> {
        if x >= 0 {
            Ok(x as u32 * 2)
        } else {
            Err(format!("negative: {}", x))
        }
    }
    fn boom(&self, kind: u32) -> u32 {
        match kind {
            0 => panic!("literal boom"),
            1 => panic!("formatted boom {}", 41 + 1),
            2 => std::panic::panic_any(17u32),
            _ => kind,
        }
    }
    fn owned_closure(&self, f: Box<dyn Fn(u32) -> u32>) -> u32 {
        f(10).wrapping_add(f(20))
    }
    fn many(&self, a: u8, b: u16, c: u32, d: u64, e: i8, f: i16, g: i32, h: i64, s: &str, v: Vec<u8>) -> u64 {
        (a as u64)
            .wrapping_add(b as u64)
            .wrapping_add(c as u64)
            .wrapping_add(d)
            .wrapping_add(e as u64)
            .wrapping_add(f as u64)
            .wrapping_add(g as u64)
            .wrapping_add(h as u64)
            .wrapping_add(s.len() as u64)
            .wrapping_add(v.iter().map(|x| *x as u64).sum::<u64>())
    }
}

/// An implementation that itself *uses* savefile-abi: its constructor connects to a helper (as a plug-in that
/// depends on another plug-in, or wraps an in-process helper behind the ABI, does).  When the implementation
/// lives in a shared library the constructor runs inside `load_shared_library` (`CreateInstance`).
#[savefile_abi_exportable(version = 0)]
pub trait Nest {
    fn ping(&self, x: u32) -> u32;
}
pub struct NestImpl {
    helper: savefile_abi::AbiConnection<dyn Callback>,
}
impl Default for NestImpl {
    fn default() -> Self {
        let helper = savefile_abi::AbiConnection::<dyn Callback>::from_boxed_trait(Box::new(Cb { k: 5, drops: Arc::new(AtomicUsize::new(0)) }))
            .expect("helper connection");
        NestImpl { helper }
    }
}
impl Nest for NestImpl {
    fn ping(&self, x: u32) -> u32 {
        self.helper.notify(x)
    }
}

/// Same method name as `Nest` with another argument type: a connection between the two is refused.  The
/// implementation's destructor uses savefile-abi itself (it says goodbye to a helper through a connection).
#[savefile_abi_exportable(version = 0)]
pub trait Nest2 {
    fn ping(&self, x: String) -> u32;
}
pub struct DropConnects {
    pub dropped: Arc<AtomicUsize>,
}
impl Nest2 for DropConnects {
    fn ping(&self, x: String) -> u32 {
        x.len() as u32
    }
}
impl Drop for DropConnects {
    fn drop(&mut self) {
        let helper = savefile_abi::AbiConnection::<dyn Callback>::from_boxed_trait(Box::new(Cb { k: 1, drops: Arc::new(AtomicUsize::new(0)) }));
        if let Ok(h) = helper {
            h.notify(1);
        }
        self.dropped.fetch_add(1, Ordering::SeqCst);
    }
}

/// Arguments and return values whose size the macro knows when it expands (it then uses fixed buffers instead of
/// the growing one): tuples of tuples, tuples of arrays, options and chars — aggregates whose size is not their
/// alignment.
#[savefile_abi_exportable(version = 0)]
pub trait Shapes {
    fn nested(&self, a: ((f32, f32), (f32, f32))) -> ((u16, u16), (u16, u16), (u16, u16));
    fn arrs(&self, a: ([u8; 4], [u8; 4]), b: (u8, (u32, u16))) -> ([u16; 3], u8);
    fn wide(&self, a: (u8, u64), b: ((u8, u8, u8), u32), c: ((u64, u64), (u64, u64), (u64, u64))) -> (u64, (u64, u64, u64));
    fn opt(&self, a: Option<(u32, u8)>, b: (bool, char)) -> (Option<u8>, (char, bool));
    fn unit_like(&self, a: (), b: ((), u8)) -> ((), (u8, ()));
}
#[derive(Default)]
pub struct ShapesImpl;
impl Shapes for ShapesImpl {
    fn nested(&self, a: ((f32, f32), (f32, f32))) -> ((u16, u16), (u16, u16), (u16, u16)) {
        let b = |x: f32| (x.to_bits() >> 16) as u16;
        ((b(a.0 .0), b(a.0 .1)), (b(a.1 .0), b(a.1 .1)), (b(a.0 .0 + a.1 .1), 7))
    }
    fn arrs(&self, a: ([u8; 4], [u8; 4]), b: (u8, (u32, u16))) -> ([u16; 3], u8) {
        ([a.0[0] as u16 * 256 + a.1[3] as u16, (b.1 .0 >> 8) as u16, b.1 .1], a.0[1] ^ a.1[2] ^ b.0)
    }
    fn wide(&self, a: (u8, u64), b: ((u8, u8, u8), u32), c: ((u64, u64), (u64, u64), (u64, u64))) -> (u64, (u64, u64, u64)) {
        (a.1 ^ (a.0 as u64) ^ (b.1 as u64) ^ (b.0 .1 as u64), (c.0 .0 ^ c.1 .1, c.1 .0 ^ c.2 .1, c.2 .0 ^ c.0 .1))
    }
    fn opt(&self, a: Option<(u32, u8)>, b: (bool, char)) -> (Option<u8>, (char, bool)) {
        (a.map(|x| x.1 ^ (x.0 as u8)), (b.1, !b.0))
    }
    fn unit_like(&self, _a: (), b: ((), u8)) -> ((), (u8, ())) {
        ((), (b.1.wrapping_add(1), ()))
    }
}

/// interfaces that differ only in their auto-trait supertraits: which connections may cross or be shared between
/// threads is decided by the compiler from `unsafe impl Send/Sync for AbiConnection<T>`
#[savefile_abi_exportable(version = 0)]
pub trait PlainOnly {
    fn get(&self) -> u32;
}
#[savefile_abi_exportable(version = 0)]
pub trait SendOnly: Send {
    fn get(&self) -> u32;
}
#[savefile_abi_exportable(version = 0)]
pub trait SendSync: Send + Sync {
    fn get(&self) -> u32;
}

/// compile-time questions answered at run time: an inherent method whose bound holds wins over the trait's default
pub struct AutoProbe<T: ?Sized>(pub std::marker::PhantomData<T>);
pub trait AutoProbeDefault {
    fn is_sync(&self) -> bool {
        false
    }
    fn is_send(&self) -> bool {
        false
    }
}
impl<T: ?Sized> AutoProbeDefault for AutoProbe<T> {}
impl<T: ?Sized + Sync> AutoProbe<T> {
    pub fn is_sync(&self) -> bool {
        true
    }
}
impl<T: ?Sized + Send> AutoProbe<T> {
    pub fn is_send(&self) -> bool {
        true
    }
}

/// (interface, connection is Send, connection is Sync, interface object is Send, interface object is Sync)
pub fn auto_trait_table() -> Vec<(&'static str, bool, bool, bool, bool)> {
    use savefile_abi::AbiConnection as C;
    use std::marker::PhantomData as P;
    vec![
        ("PlainOnly", AutoProbe::<C<dyn PlainOnly>>(P).is_send(), AutoProbe::<C<dyn PlainOnly>>(P).is_sync(), AutoProbe::<dyn PlainOnly>(P).is_send(), AutoProbe::<dyn PlainOnly>(P).is_sync()),
        ("SendOnly", AutoProbe::<C<dyn SendOnly>>(P).is_send(), AutoProbe::<C<dyn SendOnly>>(P).is_sync(), AutoProbe::<dyn SendOnly>(P).is_send(), AutoProbe::<dyn SendOnly>(P).is_sync()),
        ("SendSync", AutoProbe::<C<dyn SendSync>>(P).is_send(), AutoProbe::<C<dyn SendSync>>(P).is_sync(), AutoProbe::<dyn SendSync>(P).is_send(), AutoProbe::<dyn SendSync>(P).is_sync()),
    ]
}

/// a method with more than 32 arguments, references among the late ones: the by-reference decision is one bit per
/// argument of a 64 bit mask
#[savefile_abi_exportable(version = 0)]
pub trait ManyArgs {
    #[allow(clippy::too_many_arguments)]
    fn forty(
        &self, a0: u32, a1: u32, a2: u32, a3: u32, a4: u32, a5: u32, a6: u32, a7: u32, a8: u32, a9: u32,
        a10: u32, a11: u32, a12: u32, a13: u32, a14: u32, a15: u32, a16: u32, a17: u32, a18: u32, a19: u32,
        a20: u32, a21: u32, a22: u32, a23: u32, a24: u32, a25: u32, a26: u32, a27: u32, a28: u32, a29: u32,
        a30: &u32, a31: &u32, a32: &Rec, a33: &u64, a34: &str, a35: u8, a36: &Blob, a37: &u16, a38: u64, a39: &u32,
    ) -> u64;
}
#[derive(Default)]
pub struct ManyArgsImpl;
impl ManyArgs for ManyArgsImpl {
    fn forty(
        &self, a0: u32, a1: u32, a2: u32, a3: u32, a4: u32, a5: u32, a6: u32, a7: u32, a8: u32, a9: u32,
        a10: u32, a11: u32, a12: u32, a13: u32, a14: u32, a15: u32, a16: u32, a17: u32, a18: u32, a19: u32,
        a20: u32, a21: u32, a22: u32, a23: u32, a24: u32, a25: u32, a26: u32, a27: u32, a28: u32, a29: u32,
        a30: &u32, a31: &u32, a32: &Rec, a33: &u64, a34: &str, a35: u8, a36: &Blob, a37: &u16, a38: u64, a39: &u32,
    ) -> u64 {
        let by_value = [a0, a1, a2, a3, a4, a5, a6, a7, a8, a9, a10, a11, a12, a13, a14, a15, a16, a17, a18, a19, a20, a21, a22, a23, a24, a25, a26, a27, a28, a29];
        let mut h: u64 = 1469598103934665603;
        let mut mix = |x: u64| {
            h ^= x;
            h = h.wrapping_mul(1099511628211);
        };
        for (i, v) in by_value.iter().enumerate() {
            mix((*v as u64) << (i % 7));
        }
        mix(*a30 as u64);
        mix(*a31 as u64);
        mix(a32.id as u64);
        mix(a32.name.len() as u64);
        mix(a32.vals.iter().map(|x| *x as u64).sum());
        mix(*a33);
        mix(a34.len() as u64);
        mix(a35 as u64);
        mix(a36.bytes.iter().map(|x| *x as u64).sum());
        mix(*a37 as u64);
        mix(a38);
        mix(*a39 as u64);
        h
    }
}

/// boxed futures with every combination of auto-trait bounds the macro distinguishes (one output type each: the
/// macro makes one wrapper per output type and trait)
#[savefile_abi_exportable(version = 0)]
pub trait Futs {
    fn plain(&self, x: u32) -> std::pin::Pin<Box<dyn std::future::Future<Output = u32>>>;
    fn send(&self, x: u32) -> std::pin::Pin<Box<dyn std::future::Future<Output = u64> + Send>>;
    fn send_sync(&self, x: u32) -> std::pin::Pin<Box<dyn std::future::Future<Output = u16> + Send + Sync>>;
    fn unpinned(&self, x: u32) -> Box<dyn std::future::Future<Output = u8> + Unpin>;
    fn all(&self, x: u32) -> Box<dyn std::future::Future<Output = String> + Send + Sync + Unpin>;
}
#[derive(Default)]
pub struct FutsImpl;
impl Futs for FutsImpl {
    fn plain(&self, x: u32) -> std::pin::Pin<Box<dyn std::future::Future<Output = u32>>> {
        Box::pin(async move { x.wrapping_add(1) })
    }
    fn send(&self, x: u32) -> std::pin::Pin<Box<dyn std::future::Future<Output = u64> + Send>> {
        Box::pin(async move { x as u64 + 2 })
    }
    fn send_sync(&self, x: u32) -> std::pin::Pin<Box<dyn std::future::Future<Output = u16> + Send + Sync>> {
        Box::pin(async move { (x as u16).wrapping_add(3) })
    }
    fn unpinned(&self, x: u32) -> Box<dyn std::future::Future<Output = u8> + Unpin> {
        Box::new(std::future::ready((x as u8).wrapping_add(4)))
    }
    fn all(&self, x: u32) -> Box<dyn std::future::Future<Output = String> + Send + Sync + Unpin> {
        Box::new(std::future::ready(format!("v{}", x)))
    }
}

/// drive a future to completion on this thread (the futures here never wait for anything)
pub fn block_on<F: std::future::Future + ?Sized>(mut f: std::pin::Pin<&mut F>) -> Option<F::Output> {
    use std::task::{Context, Poll, RawWaker, RawWakerVTable, Waker};
    fn raw() -> RawWaker {
        fn no(_: *const ()) {}
        fn clone(_: *const ()) -> RawWaker {
            raw()
        }
        static VT: RawWakerVTable = RawWakerVTable::new(clone, no, no, no);
        RawWaker::new(std::ptr::null(), &VT)
    }
    let waker = unsafe { Waker::from_raw(raw()) };
    let mut cx = Context::from_waker(&waker);
    for _ in 0..1000 {
        if let Poll::Ready(v) = f.as_mut().poll(&mut cx) {
            return Some(v);
        }
    }
    None
}
