//! sfv-harness library: everything but the command line (the plug-in cdylibs under plugins/ link it too)

pub mod suite;
pub mod val;
pub mod zoo_gen;
pub mod mutate;
pub mod schemagen;
pub mod schemaread;
pub mod intro;
pub mod iofault;
pub mod crypt;
pub mod abi;
pub mod abicall;
pub mod abitraits;
pub mod abiuse;
pub mod extras;
