//! C09/C10: real calls through `AbiConnection` between macro-generated interfaces of different versions
//! of one evolution family.  The implementation side reports what it observed.

use crate::suite::*;
use crate::val::*;
use savefile_abi::{AbiConnection, AbiExportable};
use savefile::SavefileError;
use std::cell::RefCell;
use std::panic::{catch_unwind, AssertUnwindSafe};

pub struct AbiPair {
    pub fam: &'static str,
    pub i: u32,
    pub j: u32,
    pub run: fn(&mut Rng) -> Vec<String>,
}

thread_local! {
    /// (arguments as seen by the implementation, return values as produced by it)
    static OBSERVED: RefCell<Option<(Vec<String>, Vec<String>)>> = const { RefCell::new(None) };
}

pub fn observe(args: Vec<String>, rets: Vec<String>) {
    OBSERVED.with(|o| *o.borrow_mut() = Some((args, rets)));
}
pub fn take_observed() -> Option<(Vec<String>, Vec<String>)> {
    if let Some(f) = PLUGIN_OBSERVER.with(|p| *p.borrow()) {
        // the implementation ran inside a shared library, which has its own copy of `OBSERVED`
        let mut buf = vec![0u8; 1 << 20];
        let n = unsafe { f(buf.as_mut_ptr(), buf.len()) };
        if n == 0 {
            return None;
        }
        let text = String::from_utf8_lossy(&buf[..n.min(buf.len())]).to_string();
        let (a, b) = text.split_once('\x1e')?;
        let split = |x: &str| if x.is_empty() { Vec::new() } else { x.split('\x1f').map(|s| s.to_string()).collect() };
        return Some((split(a), split(b)));
    }
    OBSERVED.with(|o| o.borrow_mut().take())
}

type ObserverFn = unsafe extern "C" fn(*mut u8, usize) -> usize;
thread_local! {
    static PLUGIN_OBSERVER: RefCell<Option<ObserverFn>> = const { RefCell::new(None) };
}

/// body of the `sfv_take_observed` symbol every plug-in exports: "args␟args␞rets␟rets", 0 if nothing was observed
pub fn export_observed(buf: *mut u8, cap: usize) -> usize {
    match OBSERVED.with(|o| o.borrow_mut().take()) {
        None => 0,
        Some((a, b)) => {
            let text = format!("{}\x1e{}", a.join("\x1f"), b.join("\x1f"));
            let n = text.len().min(cap);
            unsafe { std::ptr::copy_nonoverlapping(text.as_ptr(), buf, n) };
            n
        }
    }
}

/// plugins/v<j> as built next to the harness binary (`SFV_PLUGIN_DIR` overrides the directory)
pub fn plugin_path(j: u32) -> String {
    let dir = std::env::var("SFV_PLUGIN_DIR").ok().map(std::path::PathBuf::from).unwrap_or_else(|| {
        std::env::current_exe().ok().and_then(|p| p.parent().map(|d| d.to_path_buf())).unwrap_or_default()
    });
    dir.join(format!("libsfv_plugin_v{}.so", j)).to_string_lossy().to_string()
}

/// observations of the following calls on this thread come from plug-in `j` (`None`: from this process)
pub fn use_plugin_observer(j: Option<u32>) -> Result<(), String> {
    let f = match j {
        None => None,
        Some(j) => unsafe {
            let lib = libloading::Library::new(plugin_path(j)).map_err(|e| e.to_string())?;
            let sym: libloading::Symbol<ObserverFn> = lib.get(b"sfv_take_observed\0").map_err(|e| e.to_string())?;
            let f: ObserverFn = *sym;
            std::mem::forget(lib);
            Some(f)
        },
    };
    PLUGIN_OBSERVER.with(|p| *p.borrow_mut() = f);
    Ok(())
}

#[allow(clippy::too_many_arguments)]
pub fn run_pair<C: ?Sized + AbiExportable + 'static, TI: ZooVal, TJ: ZooVal>(
    fam: &str,
    i: u32,
    j: u32,
    connect: fn() -> Result<AbiConnection<C>, SavefileError>,
    echo: fn(&AbiConnection<C>, TI, &TI, u64) -> TI,
    twice: fn(&AbiConnection<C>, &TI, TI) -> (TI, TI),
    with_cb: fn(&AbiConnection<C>, TI, &dyn Fn(TI) -> TI) -> TI,
    added: Option<fn(&AbiConnection<C>, u32) -> u32>,
    r: &mut Rng,
) -> Vec<String> {
    let mut out = Vec::new();
    let ti = format!("@{}_v{}_T", fam, i);
    let tj = format!("@{}_v{}_T", fam, j);
    let conn = match catch_unwind(AssertUnwindSafe(connect)) {
        Ok(Ok(c)) => c,
        Ok(Err(e)) => {
            out.push(format!("!C10 family-versions-do-not-connect fam={} caller={} impl={} got=(err {})", fam, i, j, err_class(&e)));
            return out;
        }
        Err(_) => {
            out.push(format!("!C10 connect-panic fam={} caller={} impl={} got={}", fam, i, j, panic_class(&last_panic())));
            return out;
        }
    };
    out.push(format!("#stat eff-version-{} 1", conn.template.effective_version));
    if conn.template.effective_version != i.min(j) {
        out.push(format!("!C10 effective-version-not-min fam={} caller={} impl={} got={}", fam, i, j, conn.template.effective_version));
    }
    for m in conn.template.methods.iter() {
        out.push(format!("#stat by-ref-mask-{}-{} 1", m.method_name, m.compatibility_mask));
    }
    // echo(a, &b, seed)
    let sz = 2 + r.below(10) as usize;
    let a = TI::gen(r, sz);
    let b = TI::gen(r, sz);
    let seed = r.next();
    let (a_sx, b_sx) = (a.sx(false), b.sx(false));
    let res = catch_unwind(AssertUnwindSafe(|| echo(&conn, a, &b, seed)));
    let obs = take_observed();
    match (res, obs) {
        (Ok(ret), Some((seen, sent))) => {
            out.push(format!(
                "(abicall {} {} {} {} ({} {}) ({}))\t(ok ({}) ({}))",
                ti, tj, i, j, a_sx, b_sx, sent.join(" "), seen.join(" "), ret.sx(true)
            ));
        }
        (Err(_), obs) => {
            out.push(format!(
                "!C10 call-panic fam={} caller={} impl={} method=echo implementation-ran={} got={}",
                fam, i, j, obs.is_some(), panic_class(&last_panic())
            ));
        }
        (Ok(_), None) => out.push(format!("!C09 implementation-not-invoked fam={} caller={} impl={} method=echo", fam, i, j)),
    }
    // twice(&a, b) -> (T, T)
    let a = TI::gen(r, sz);
    let b = TI::gen(r, sz);
    let (a_sx, b_sx) = (a.sx(false), b.sx(false));
    let res = catch_unwind(AssertUnwindSafe(|| twice(&conn, &a, b)));
    let obs = take_observed();
    match (res, obs) {
        (Ok((r1, r2)), Some((seen, sent))) => {
            out.push(format!(
                "(abicall {} {} {} {} ({} {}) ({}))\t(ok ({}) ({} {}))",
                ti, tj, i, j, a_sx, b_sx, sent.join(" "), seen.join(" "), r1.sx(true), r2.sx(true)
            ));
        }
        (Err(_), obs) => {
            out.push(format!(
                "!C10 call-panic fam={} caller={} impl={} method=twice implementation-ran={} got={}",
                fam, i, j, obs.is_some(), panic_class(&last_panic())
            ));
        }
        (Ok(_), None) => out.push(format!("!C09 implementation-not-invoked fam={} caller={} impl={} method=twice", fam, i, j)),
    }
    // with_cb(a, |x| y) -> T: `a` and the closure's result travel to the implementation, the closure's argument
    // and the method's result travel back
    let a = TI::gen(r, sz);
    let y = TI::gen(r, sz);
    let (a_sx, y_sx) = (a.sx(false), y.sx(false));
    let got_x: RefCell<Option<String>> = RefCell::new(None);
    let y_cell = RefCell::new(Some(y));
    let res = catch_unwind(AssertUnwindSafe(|| {
        with_cb(&conn, a, &|x: TI| {
            *got_x.borrow_mut() = Some(x.sx(true));
            y_cell.borrow_mut().take().expect("closure called once")
        })
    }));
    let obs = take_observed();
    match (res, obs, got_x.borrow().clone()) {
        (Ok(ret), Some((seen, sent)), Some(x_seen)) => {
            out.push(format!(
                "(abicall {} {} {} {} ({} {}) ({}))\t(ok ({}) ({} {}))",
                ti, tj, i, j, a_sx, y_sx, sent.join(" "), seen.join(" "), x_seen, ret.sx(true)
            ));
            out.push("#stat closure-calls 1".into());
        }
        (Err(_), obs, _) => {
            out.push(format!(
                "!C10 call-panic fam={} caller={} impl={} method=with_cb implementation-ran={} got={}",
                fam, i, j, obs.is_some(), panic_class(&last_panic())
            ));
        }
        (Ok(_), None, _) => out.push(format!("!C09 implementation-not-invoked fam={} caller={} impl={} method=with_cb", fam, i, j)),
        (Ok(_), Some(_), None) => out.push(format!("!C09 closure-not-invoked fam={} caller={} impl={} method=with_cb", fam, i, j)),
    }
    // a method the implementation may lack
    if let Some(added) = added {
        let x = r.next() as u32;
        let res = catch_unwind(AssertUnwindSafe(|| added(&conn, x)));
        match res {
            Ok(y) => {
                if j == 0 {
                    out.push(format!("!C10 missing-method-call-returned fam={} caller={} impl={} got={}", fam, i, j, y));
                } else if y != x.wrapping_add(1) {
                    out.push(format!("!C09 wrong-return-value fam={} caller={} impl={} sent={} got={}", fam, i, j, x, y));
                }
                out.push("#stat added-method-ok 1".into());
            }
            Err(_) => {
                let msg = last_panic();
                if j >= 1 {
                    out.push(format!("!C10 present-method-call-panicked fam={} caller={} impl={} got={}", fam, i, j, panic_class(&msg)));
                }
                out.push("#stat added-method-missing-panics 1".into());
            }
        }
    }
    out
}

/// `load_shared_library` itself: failures are errors (never panics), they leave the library and entry caches usable,
/// repeated and concurrent loads of one library give working, independent connections
pub fn plugin_probes(seed: u64) -> Vec<String> {
    use crate::zoo_gen::{FamAdd_v0, FamAdd_v1};
    let mut out = Vec::new();
    let stuck = std::cell::Cell::new(false);
    let mut probe = |what: &str, f: &dyn Fn() -> Result<(), String>| {
        let tag = if what.starts_with("concurrent") { "C16" } else { "C09" };
        if stuck.get() {
            // an earlier probe left a thread waiting for ever while holding a global lock
            return;
        }
        match catch_unwind(AssertUnwindSafe(f)) {
            Ok(Err(e)) if e.starts_with("deadlock") => {
                stuck.set(true);
                out.push(format!("!{} plugin-probe-failed what={} got={}", tag, what, e.replace(' ', "_")));
            }
            Ok(Ok(())) => out.push(format!("#stat plugin-probe-{} 1", what)),
            Ok(Err(e)) => out.push(format!("!{} plugin-probe-failed what={} got={}", tag, what, e.replace(' ', "_"))),
            Err(_) => out.push(format!("!{} plugin-probe-panics what={} got={}", tag, what, panic_class(&last_panic()))),
        }
    };
    probe("missing-file-is-error", &|| {
        match AbiConnection::<dyn FamAdd_v1::IFamAdd>::load_shared_library("/nonexistent/libsfv_none.so") {
            Err(SavefileError::LoadLibraryFailed { .. }) => Ok(()),
            Err(e) => Err(format!("unexpected error {}", err_class(&e))),
            Ok(_) => Err("a missing file gave a connection".into()),
        }
    });
    probe("missing-symbol-is-error", &|| {
        // version 0 of the library exports no interface named like this trait
        match AbiConnection::<dyn crate::abitraits::Service>::load_shared_library(&plugin_path(0)) {
            Err(SavefileError::LoadSymbolFailed { .. }) => Ok(()),
            Err(e) => Err(format!("unexpected error {}", err_class(&e))),
            Ok(_) => Err("a missing symbol gave a connection".into()),
        }
    });
    probe("loads-after-failures", &|| {
        let c = AbiConnection::<dyn FamAdd_v1::IFamAdd>::load_shared_library(&plugin_path(1)).map_err(|e| err_class(&e))?;
        let x = seed as u32;
        let y = FamAdd_v1::IFamAdd::added_v1(&c, x);
        if y != x.wrapping_add(1) {
            return Err(format!("added_v1({}) = {}", x, y));
        }
        Ok(())
    });
    probe("repeated-loads-independent", &|| {
        let mut conns = Vec::new();
        for _ in 0..8 {
            conns.push(AbiConnection::<dyn FamAdd_v1::IFamAdd>::load_shared_library(&plugin_path(1)).map_err(|e| err_class(&e))?);
        }
        // dropping some of them must leave the others usable
        conns.truncate(3);
        for (k, c) in conns.iter().enumerate() {
            let x = (seed as u32).wrapping_add(k as u32);
            if FamAdd_v1::IFamAdd::added_v1(c, x) != x.wrapping_add(1) {
                return Err("wrong result after dropping sibling connections".into());
            }
        }
        Ok(())
    });
    probe("concurrent-nested-creation", &|| {
        // the implementation's constructor creates a connection itself; run under a watchdog: a creation that
        // waits for a lock its own caller holds never returns
        let (tx, rx) = std::sync::mpsc::channel();
        std::thread::spawn(move || {
            let r = AbiConnection::<dyn crate::abitraits::Nest>::load_shared_library(&plugin_path(0)).map_err(|e| err_class(&e)).map(|c| crate::abitraits::Nest::ping(&c, 7));
            let _ = tx.send(r);
        });
        match rx.recv_timeout(std::time::Duration::from_secs(20)) {
            Ok(Ok(26)) => Ok(()),
            Ok(Ok(other)) => Err(format!("ping(7) = {}", other)),
            Ok(Err(e)) => Err(format!("nested creation failed: {}", e)),
            Err(_) => Err("deadlock: creating a connection whose implementation's constructor creates a connection did not finish within 20 s".into()),
        }
    });
    probe("concurrent-refused-owner-with-connecting-destructor", &|| {
        // a refused creation that owns its implementation object; the object's destructor creates a connection.
        // Whatever the library does with the object (keep it, drop it), it must not do it in a way that makes
        // this creation, or the destructor's, wait forever.
        use crate::abitraits::{DropConnects, Nest, Nest2};
        let (tx, rx) = std::sync::mpsc::channel();
        std::thread::spawn(move || {
            let dropped = std::sync::Arc::new(std::sync::atomic::AtomicUsize::new(0));
            let r = unsafe {
                AbiConnection::<dyn Nest>::from_boxed_trait_for_test(
                    <dyn Nest2 as AbiExportable>::ABI_ENTRY,
                    Box::new(DropConnects { dropped: dropped.clone() }) as Box<dyn Nest2>,
                )
            };
            let refused = r.is_err();
            drop(r);
            // afterwards creation still works
            let ok = AbiConnection::<dyn Nest2>::from_boxed_trait(Box::new(DropConnects { dropped })).map(|c| Nest2::ping(&c, "abc".to_string()));
            let _ = tx.send((refused, ok.map_err(|e| err_class(&e))));
        });
        match rx.recv_timeout(std::time::Duration::from_secs(20)) {
            Ok((true, Ok(3))) => Ok(()),
            Ok((false, _)) => Err("a connection between incompatible interfaces was created".into()),
            Ok((true, other)) => Err(format!("creation after the refused one: {:?}", other)),
            Err(_) => Err("deadlock: a refused creation whose implementation object has a destructor that creates a connection did not finish within 20 s".into()),
        }
    });
    probe("concurrent-loads", &|| {
        let mut hs = Vec::new();
        for t in 0..12u32 {
            hs.push(std::thread::spawn(move || -> Result<(), String> {
                for k in 0..20u32 {
                    let j = (t + k) % 2 + 1;
                    let c = AbiConnection::<dyn FamAdd_v1::IFamAdd>::load_shared_library(&plugin_path(j)).map_err(|e| err_class(&e))?;
                    let x = t * 1000 + k;
                    if FamAdd_v1::IFamAdd::added_v1(&c, x) != x + 1 {
                        return Err(format!("thread {} load {}: wrong result", t, k));
                    }
                    let c0 = AbiConnection::<dyn FamAdd_v0::IFamAdd>::load_shared_library(&plugin_path(j)).map_err(|e| err_class(&e))?;
                    drop(c0);
                }
                Ok(())
            }));
        }
        for h in hs {
            h.join().map_err(|_| "a loading thread panicked".to_string())??;
        }
        Ok(())
    });
    out
}
