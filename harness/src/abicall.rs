//! C09/C10: real calls through `AbiConnection` between macro-generated interfaces of different versions
//! of one evolution family.  The implementation side reports what it observed.

use crate::suite::*;
use crate::val::*;
use savefile_abi::{AbiConnection, AbiExportable};
use savefile::SavefileError;
use std::cell::RefCell;
use std::panic::{catch_unwind, AssertUnwindSafe};

pub struct AbiPair {
    pub fam: &'static str,
    pub i: u32,
    pub j: u32,
    pub run: fn(&mut Rng) -> Vec<String>,
}

thread_local! {
    /// (arguments as seen by the implementation, return values as produced by it)
    static OBSERVED: RefCell<Option<(Vec<String>, Vec<String>)>> = const { RefCell::new(None) };
}

pub fn observe(args: Vec<String>, rets: Vec<String>) {
    OBSERVED.with(|o| *o.borrow_mut() = Some((args, rets)));
}
fn take_observed() -> Option<(Vec<String>, Vec<String>)> {
    OBSERVED.with(|o| o.borrow_mut().take())
}

#[allow(clippy::too_many_arguments)]
pub fn run_pair<C: ?Sized + AbiExportable + 'static, TI: ZooVal, TJ: ZooVal>(
    fam: &str,
    i: u32,
    j: u32,
    connect: fn() -> Result<AbiConnection<C>, SavefileError>,
    echo: fn(&AbiConnection<C>, TI, &TI, u64) -> TI,
    twice: fn(&AbiConnection<C>, &TI, TI) -> (TI, TI),
    added: Option<fn(&AbiConnection<C>, u32) -> u32>,
    r: &mut Rng,
) -> Vec<String> {
    let mut out = Vec::new();
    let ti = format!("@{}_v{}_T", fam, i);
    let tj = format!("@{}_v{}_T", fam, j);
    let conn = match catch_unwind(AssertUnwindSafe(connect)) {
        Ok(Ok(c)) => c,
        Ok(Err(e)) => {
            out.push(format!("!C10 family-versions-do-not-connect fam={} caller={} impl={} got=(err {})", fam, i, j, err_class(&e)));
            return out;
        }
        Err(_) => {
            out.push(format!("!C10 connect-panic fam={} caller={} impl={} got={}", fam, i, j, panic_class(&last_panic())));
            return out;
        }
    };
    out.push(format!("#stat eff-version-{} 1", conn.template.effective_version));
    if conn.template.effective_version != i.min(j) {
        out.push(format!("!C10 effective-version-not-min fam={} caller={} impl={} got={}", fam, i, j, conn.template.effective_version));
    }
    for m in conn.template.methods.iter() {
        out.push(format!("#stat by-ref-mask-{}-{} 1", m.method_name, m.compatibility_mask));
    }
    // echo(a, &b, seed)
    let sz = 2 + r.below(10) as usize;
    let a = TI::gen(r, sz);
    let b = TI::gen(r, sz);
    let seed = r.next();
    let (a_sx, b_sx) = (a.sx(false), b.sx(false));
    let res = catch_unwind(AssertUnwindSafe(|| echo(&conn, a, &b, seed)));
    let obs = take_observed();
    match (res, obs) {
        (Ok(ret), Some((seen, sent))) => {
            out.push(format!(
                "(abicall {} {} {} {} ({} {}) ({}))\t(ok ({}) ({}))",
                ti, tj, i, j, a_sx, b_sx, sent.join(" "), seen.join(" "), ret.sx(true)
            ));
        }
        (Err(_), obs) => {
            out.push(format!(
                "!C10 call-panic fam={} caller={} impl={} method=echo implementation-ran={} got={}",
                fam, i, j, obs.is_some(), panic_class(&last_panic())
            ));
        }
        (Ok(_), None) => out.push(format!("!C09 implementation-not-invoked fam={} caller={} impl={} method=echo", fam, i, j)),
    }
    // twice(&a, b) -> (T, T)
    let a = TI::gen(r, sz);
    let b = TI::gen(r, sz);
    let (a_sx, b_sx) = (a.sx(false), b.sx(false));
    let res = catch_unwind(AssertUnwindSafe(|| twice(&conn, &a, b)));
    let obs = take_observed();
    match (res, obs) {
        (Ok((r1, r2)), Some((seen, sent))) => {
            out.push(format!(
                "(abicall {} {} {} {} ({} {}) ({}))\t(ok ({}) ({} {}))",
                ti, tj, i, j, a_sx, b_sx, sent.join(" "), seen.join(" "), r1.sx(true), r2.sx(true)
            ));
        }
        (Err(_), obs) => {
            out.push(format!(
                "!C10 call-panic fam={} caller={} impl={} method=twice implementation-ran={} got={}",
                fam, i, j, obs.is_some(), panic_class(&last_panic())
            ));
        }
        (Ok(_), None) => out.push(format!("!C09 implementation-not-invoked fam={} caller={} impl={} method=twice", fam, i, j)),
    }
    // a method the implementation may lack
    if let Some(added) = added {
        let x = r.next() as u32;
        let res = catch_unwind(AssertUnwindSafe(|| added(&conn, x)));
        match res {
            Ok(y) => {
                if j == 0 {
                    out.push(format!("!C10 missing-method-call-returned fam={} caller={} impl={} got={}", fam, i, j, y));
                } else if y != x.wrapping_add(1) {
                    out.push(format!("!C09 wrong-return-value fam={} caller={} impl={} sent={} got={}", fam, i, j, x, y));
                }
                out.push("#stat added-method-ok 1".into());
            }
            Err(_) => {
                let msg = last_panic();
                if j >= 1 {
                    out.push(format!("!C10 present-method-call-panicked fam={} caller={} impl={} got={}", fam, i, j, panic_class(&msg)));
                }
                out.push("#stat added-method-missing-panics 1".into());
            }
        }
    }
    out
}
